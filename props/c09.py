"""
C09 - UTF-8 validation equals RFC 3629, incrementally, in both implementations.

Product exploration reference automaton x implementation: from every reachable
reference state (two different witness prefixes each) all 256 next octets, fed
three ways; all strings up to length 2 (quick) / 3 (thorough) under all
chunkings; all strings of length <= 4 over 24 boundary octets under all
chunkings; concatenations of boundary code points and ill-formed pieces under
chunk sizes 1..17.  Implementations: pure Python (worker with NVX off), the NVX
Python wrapper, and the C API directly with each selectable implementation id
(table, unrolled, "sse2", "sse4.1" - the dispatcher routes the last two to the
table variant), rebuilt from /repo's C source.
"""
LEVEL = "model_checking"
RULE = ("states = reachable states of the product (reference automaton x implementation "
        "verdict); transitions = (state, octet, feeding mode) triples executed; every listed "
        "string/chunking is executed on the real validator after reset() and every returned "
        "quad compared with the reference; non-trivial = string of length >= 1")
ASSUMPTIONS = [
    "strings longer than 4 octets are covered only through the complete transition table "
    "(state x octet), the boundary-octet alphabet and concatenations of enumerated pieces",
    "after a rejecting chunk only valid=False is required of later chunks (positions are "
    "unspecified there)",
]
BOUNDARY = bytes.fromhex("007F808F909FA0BFC0C1C2DFE0E1ECEDEEEFF0F1F3F4F5FF")

IMPLS_PY = ["py"]
# "c-impl2r": the table implementation, selected AGAIN (same id) before every chunk: the implementations
# share one validator state, choosing one is no reset
IMPLS_NVX = ["nvx-wrapper", "c-impl1", "c-impl2", "c-impl3", "c-impl4", "c-impl2r"]


def main(ctx):
    tier = ctx.tier
    L = 3 if tier == "thorough" else 2
    for env, impls in (({"fw": "none", "nvx": "0"}, IMPLS_PY),
                       ({"fw": "none", "nvx": "1"}, IMPLS_NVX)):
        jobs = []
        for impl in impls:
            jobs.append({"kind": "product", "impl": impl})
            for lead in range(256):
                jobs.append({"kind": "strings", "impl": impl, "lead": lead, "L": L})
            for lead in BOUNDARY:
                jobs.append({"kind": "boundary", "impl": impl, "lead": lead, "L": 4})
            for part in range(8):
                jobs.append({"kind": "mix", "impl": impl, "part": part, "parts": 8,
                             "seed": ctx.seed})
            if impl in ("py", "nvx-wrapper"):
                jobs.append({"kind": "fresh", "impl": impl})
            for totals in ([[256], [257], [300]] if tier != "thorough" else
                           [[255], [256], [257], [272], [300], [511], [1027]]):
                jobs.append({"kind": "long", "impl": impl, "totals": totals})
        jobs.append({"kind": "selection", "impl": impls[0]})
        ctx.pmap(env, "props.c09:job", jobs, chunksize=4)
    ctx.coverage["states"] = int(ctx.counters["product_states"])
    ctx.coverage["transitions"] = int(ctx.counters["product_transitions"])
    ctx.coverage["traces_validated_against_impl"] = int(ctx.counters["evaluations"])
    ctx.coverage["distinct_nontrivial"] = int(ctx.counters["strings"])
    ctx.coverage["distinct_outcomes"] = int(ctx.counters["outcome_valid"] > 0) + \
        int(ctx.counters["outcome_invalid"] > 0) + int(ctx.counters["outcome_incomplete"] > 0)
    for n in ("product_transitions", "outcome_valid", "outcome_invalid", "outcome_incomplete",
              "impl:py", "impl:nvx-wrapper", "impl:c-impl2", "fresh_after_dropped"):
        ctx.require(n)
    ctx.require("product_states", 9 * 6)


def _impl(name):
    """-> (reset, validate)"""
    if name == "py":
        import autobahn.websocket.utf8validator as u
        from autobahn.websocket import USES_NVX
        assert not USES_NVX
        assert u.Utf8Validator.__module__ == "autobahn.websocket.utf8validator"
        v = u.Utf8Validator()
        return v.reset, v.validate
    if name == "nvx-wrapper":
        import autobahn.websocket.utf8validator as u
        from autobahn.websocket import USES_NVX
        assert USES_NVX
        assert u.Utf8Validator.__module__ == "autobahn.nvx._utf8validator"
        v = u.Utf8Validator()
        return v.reset, v.validate
    import _nvx_utf8validator as m
    ffi, lib = m.ffi, m.lib
    reselect = name.endswith("r")
    want = int(name.rstrip("r")[-1])
    p = ffi.gc(lib.nvx_utf8vld_new(), lib.nvx_utf8vld_free)
    got = lib.nvx_utf8vld_set_impl(p, want)
    if got != want:
        return None

    def validate(ba):
        if reselect:
            lib.nvx_utf8vld_set_impl(p, want)
        res = lib.nvx_utf8vld_validate(p, ba, len(ba))
        return (res >= 0, res == 0, lib.nvx_utf8vld_get_current_index(p),
                lib.nvx_utf8vld_get_total_index(p))
    return (lambda: lib.nvx_utf8vld_reset(p)), validate


def _chunkings(n):
    """all compositions of n as lists of cut positions"""
    out = []
    for mask in range(1 << max(0, n - 1)):
        cuts = [i for i in range(1, n) if mask >> (i - 1) & 1]
        out.append(cuts)
    return out


def job(a):
    from ref import utf8 as R
    kind, impl = a["kind"], a["impl"]
    if kind == "selection":
        return _selection()
    rv = _impl(impl)
    if rv is None:  # implementation id not selectable in this build
        return {"evals": 0, "stats": {"impl_unavailable:" + impl: 1}}
    reset, validate = rv
    viol = []
    stats = {"impl:" + impl: 0, "strings": 0, "outcome_valid": 0, "outcome_invalid": 0,
             "outcome_incomplete": 0, "product_states": 0, "product_transitions": 0}
    evals = 0
    samples = []

    def run(chunks, label):
        nonlocal evals
        exp = R.expected_quads(chunks)
        reset()
        got = [tuple(validate(c)) for c in chunks]
        evals += 1
        stats["impl:" + impl] += 1
        ok = True
        offender = None
        for e, g in zip(exp, got):
            if e[1] is None:
                if g[0] is not False:
                    ok = False
                    why = "sticky-reject"
                elif g[3] != offender:
                    # "the same verdict and positions in any split": whatever call comes after the
                    # rejecting one still names the first offending octet of the whole input
                    ok = False
                    why = "position-after-reject"
            elif tuple(e) != tuple(g):
                ok = False
                why = "quad"
            elif not e[0] and offender is None:
                offender = e[3]
        if not ok and len(viol) < 4:
            viol.append({
                "sig": "C09|%s|%s|%s" % (impl, label, why),
                "desc": "%s chunks=%s expected=%s got=%s" % (
                    impl, [c.hex() for c in chunks], exp, got),
                "replay": {"env": {"fw": "none", "nvx": "0" if impl == "py" else "1"},
                           "func": "props.c09:replay",
                           "arg": {"impl": impl, "chunks": [c.hex() for c in chunks]}}})
        last = exp[-1] if exp else (True, True, 0, 0)
        if any(not e[0] for e in exp):
            stats["outcome_invalid"] += 1
        elif last[1]:
            stats["outcome_valid"] += 1
        else:
            stats["outcome_incomplete"] += 1
        return ok

    if kind == "product":
        first, second = R.reachable_states()
        stats["product_states"] = len(first) + 1
        for st, w1 in first.items():
            for w in (w1, second.get(st)):
                if w is None:
                    continue
                for b in range(256):
                    o = bytes([b])
                    # same chunk / new chunk / octet-at-a-time
                    run([w + o], "product-samechunk")
                    run([w, o] if w else [o], "product-newchunk")
                    run([bytes([x]) for x in w + o], "product-bytewise")
                    stats["product_transitions"] += 3
                    # and continue after the transition with a valid ASCII octet
                    # in a further chunk (reject must be sticky, accept must go on)
                    run([w + o, b"A"], "product-then-ascii")
                    # empty chunks before / after the transition change nothing
                    run([w, b"", o, b"", b"A"], "product-empty-chunks")
        samples.append({"impl": impl, "kind": "product", "states": len(first) + 1,
                        "witnesses": {str(k): v.hex() for k, v in list(first.items())[:4]}})
    elif kind in ("strings", "boundary"):
        L = a["L"]
        alpha = list(range(256)) if kind == "strings" else list(BOUNDARY)
        lead = a["lead"]
        chunkings = {n: _chunkings(n) for n in range(0, L + 1)}

        def rec(prefix):
            s = bytes(prefix)
            stats["strings"] += 1
            n = len(s)
            for cuts in chunkings[n]:
                pos = [0] + cuts + [n]
                run([s[pos[i]:pos[i + 1]] for i in range(len(pos) - 1)], kind)
            if n < L:
                for b in alpha:
                    prefix.append(b)
                    rec(prefix)
                    prefix.pop()
        rec([lead])
        if lead == 0 and kind == "strings":
            reset()
            run([b""], kind)
            run([b"", b""], kind)
        if lead in (0xE0, 0xF4):
            samples.append({"impl": impl, "kind": kind, "lead": "%02x" % lead, "max_len": L,
                            "strings": stats["strings"]})
    elif kind == "fresh":
        # a NEW validator object starts in the initial state - without reset() - whatever state
        # earlier validator objects were dropped in (handles must not be recycled with their state)
        import gc
        import autobahn.websocket.utf8validator as u
        first, second = R.reachable_states()
        probes = [b"A", b"\xac", b"\x80", b"\xe2\x82\xac", b"\xf0\x9f", b""]
        for st, w1 in first.items():
            for w in (w1, second.get(st), (w1 or b"") + b"\xff"):
                if w is None:
                    continue
                for ndrop in (1, 3):
                    olds = [u.Utf8Validator() for _ in range(ndrop)]
                    for o in olds:
                        o.validate(w)
                    del olds, o
                    gc.collect()
                    for probe in probes:
                        v2 = u.Utf8Validator()
                        got = tuple(v2.validate(probe))
                        exp = tuple(R.expected_quads([probe])[0])
                        evals += 1
                        stats["impl:" + impl] += 1
                        stats["fresh_after_dropped"] = stats.get("fresh_after_dropped", 0) + 1
                        if got != exp and len(viol) < 4:
                            viol.append({
                                "sig": "C09|%s|fresh-validator-inherits-state|quad" % impl,
                                "desc": "%s: after %d validator(s) fed %s were dropped, a new validator gives "
                                        "%s for %s, expected %s" % (impl, ndrop, w.hex(), got, probe.hex(), exp),
                                "replay": {"env": {"fw": "none", "nvx": "0" if impl == "py" else "1"},
                                           "func": "props.c09:job", "arg": a}})
                        del v2
                        gc.collect()
        samples.append({"impl": impl, "kind": "fresh", "states": len(first)})
    elif kind == "long":
        # chunks long enough for block-wise (SIMD / unrolled) code paths: an ill-formed or truncated
        # piece at EVERY position of a 256..~300 octet chunk of mixed valid code points; fed as one
        # chunk and cut once around the block sizes
        good = [b"A", b"\xc3\xa9", b"z", b"\xe2\x82\xac", b"0", b"\xf0\x9f\x98\x80", b"~"]
        badp = [b"\xc0\x80", b"\xed\xa0\x80", b"\xf4\x90\x80\x80", b"\xf5", b"\x80", b"\xff",
                b"\xe0\x9f\xbf", b"\xc2", b"\xe1\x80", b"\xf1\x80\x80"]
        fillers = []
        for total in a["totals"]:
            filler = b""
            i = 0
            while len(filler) < total:
                filler += good[i % len(good)]
                i += 1
            filler = filler[:total]
            while filler and (filler[-1] & 0xC0) == 0x80 or filler[-1:] and filler[-1] >= 0xC0:
                filler = filler[:-1] + b"A" if False else filler[:-1]
            fillers.append(filler)
            # runs of plain ASCII (word-at-a-time fast paths): 7-bit text of the same length
            fillers.append(bytes(0x20 + (j % 90) for j in range(total)))
        for filler in fillers:
            run([filler], "long-valid")
            for pos in range(0, len(filler) + 1):
                if pos < len(filler) and (filler[pos] & 0xC0) == 0x80:
                    continue          # keep the prefix well formed: cut only on code point starts
                for bp in badp:
                    s_ = filler[:pos] + bp + filler[pos:]
                    stats["strings"] += 1
                    run([s_], "long-one-chunk")
                    for k in (1, 16, 255, 256):
                        if 0 < k < len(s_):
                            run([s_[:k], s_[k:]], "long-two-chunks")
        samples.append({"impl": impl, "kind": "long", "totals": a["totals"]})
    elif kind == "mix":
        good = [b"\x00", b"\x7f", b"\xc2\x80", b"\xdf\xbf", b"\xe0\xa0\x80", b"\xed\x9f\xbf",
                b"\xee\x80\x80", b"\xef\xbf\xbf", b"\xf0\x90\x80\x80", b"\xf4\x8f\xbf\xbf",
                b"\xe1\x80\x80", b"\xf1\x80\x80\x80"]
        badp = [b"\xc0\x80", b"\xed\xa0\x80", b"\xf4\x90\x80\x80", b"\xf5", b"\x80",
                b"\xe0\x9f\xbf", b"\xf0\x8f\xbf\xbf", b"\xc2", b"\xe1\x80", b"\xf1\x80\x80",
                b"\xff", b"\xc1\xbf", b"\xed\xbf\xbf", b"\xf8\x88\x80\x80\x80"]
        cases = []
        for g1 in good:
            for g2 in good:
                for tail in good + badp:
                    cases.append(g1 + g2 * 3 + tail + g1)
                    cases.append(g2 + tail + g1 * 2)
        cases = cases[a["part"]::a["parts"]]
        for s in cases:
            stats["strings"] += 1
            for cs in range(1, 18):
                run([s[i:i + cs] for i in range(0, len(s), cs)], "mix")
        samples.append({"impl": impl, "kind": "mix", "example": cases[0].hex(),
                        "chunk_sizes": "1..17", "cases": len(cases)})
    return {"evals": evals, "viol": viol, "stats": stats, "samples": samples[:1]}


def _selection():
    """HAS_NVX / USES_NVX follow the environment variable"""
    import os
    import autobahn.websocket as w
    import autobahn.websocket.utf8validator as u
    import autobahn.websocket.xormasker as x
    want = os.environ["AUTOBAHN_USE_NVX"] == "1"
    viol = []
    if not w.HAS_NVX or w.USES_NVX != want or \
            (u.Utf8Validator.__module__ == "autobahn.nvx._utf8validator") != want or \
            (x.create_xor_masker.__module__ == "autobahn.nvx._xormasker") != want:
        viol.append({"sig": "C09|selection", "desc": "HAS_NVX=%r USES_NVX=%r env=%r validator=%s" % (
            w.HAS_NVX, w.USES_NVX, os.environ["AUTOBAHN_USE_NVX"], u.Utf8Validator.__module__),
            "replay": {"env": {"nvx": os.environ["AUTOBAHN_USE_NVX"]},
                       "func": "props.c09:job", "arg": {"kind": "selection", "impl": "-"}}})
    return {"evals": 1, "viol": viol, "stats": {"selection_checked": 1}}


def replay(a):
    from ref import utf8 as R
    reset, validate = _impl(a["impl"])
    chunks = [bytes.fromhex(c) for c in a["chunks"]]
    reset()
    got = [tuple(validate(c)) for c in chunks]
    exp = R.expected_quads(chunks)
    bad = [i for i, (e, g) in enumerate(zip(exp, got))
           if (g[0] is not False if e[1] is None else tuple(e) != tuple(g))]
    return {"expected": exp, "got": got, "viol": [{"sig": "replay", "desc": "chunk %s differs" % bad}] if bad else []}


MANIFEST = {
    "text": "Explicit product exploration of the reference automaton (9 states, derived from the "
            "RFC 3629 range table) with each real validator: all 2304 (state, octet) transitions "
            "from two witnesses per state in three feeding modes, every string of length <=2 "
            "(quick) / <=3 (thorough, 16.8M) under every chunking, every string of length <=4 over "
            "24 boundary octets under every chunking, and piece concatenations under chunk sizes "
            "1..17, on the pure-Python class, the NVX wrapper and each selectable C implementation "
            "rebuilt from /repo. Complete for the validator's finite state space: any deviation "
            "in a single transition, index or end-of-code-point flag is reached.",
    "note": "Trusted: the range table in ref/utf8.py (cross-checked against CPython's strict "
            "decoder in setup), cffi build of the C source. Positions after a rejecting chunk are "
            "not specified; only stickiness of the reject is required.",
    "technique": "explicit-state product exploration (reference automaton x implementation) + "
                 "exhaustive bounded string/chunking enumeration",
}
