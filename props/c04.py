"""
C04 - each WAMP request completes exactly once with its own reply.

Driver: harness/wamp_l1.py - a real ApplicationSession (Twisted / asyncio flavour) joined
through a scripted ITransport.  Explicit-state BFS over event histories (API calls and router
messages); a state is rebuilt by replaying its history on a fresh real session; states are
merged by the digest of an over-fine snapshot; every transition is judged against
ref/wamp_session.RequestModel.
"""
LEVEL = "model_checking"
RULE = ("state = digest of (pending request tables by kind with ids, completion status of every "
        "returned future, subscription/registration tables, id generator position, session flags) "
        "reached by an event history of API calls and router messages on a fresh real session; "
        "transition = one event applied to a rebuilt state and judged against the reference; "
        "non-trivial = transition in which a router message addressed a session with at least one "
        "pending or completed request")
ASSUMPTIONS = [
    "at most 3 requests outstanding; histories up to depth 6 (quick) / 8 (thorough; the 8th event "
    "is restricted: API calls to call(on_progress+details), acknowledged publish, subscribe, "
    "register, unsubscribe, unregister; payload shape of final replies to args+kwargs)",
    "payload shapes of replies {none, one arg, two args, kwargs, args+kwargs}; payload values are "
    "representatives derived from the request id (distinct per request) and VERIF_SEED",
    "request payload shape in deep histories rotates with the API call index; the full product API "
    "kind x option set x payload shape is enumerated at depth 1-2 (flat sweep)",
    "router-chosen ids (subscription, registration, publication, invocation request) are small "
    "integers that collide with pending request ids on purpose",
    "one handler per subscription id here (several handlers: C11); no payload codec, no cancel()",
    "the digest drops: sent-log length (checked on every transition), contents of completed futures "
    "(checked when they complete; a completed request has left every table), callback log",
]

SHAPES = ["none", "arg1", "args", "kwargs", "both"]
API_KINDS = ["call:plain", "call:prog", "call:det", "call:progdet", "pub:1", "pub:0", "sub", "reg"]
CORE_APIS = ["call:progdet", "pub:1", "sub", "reg"]
UNKNOWN_ID = 424242


def shards(k, apis):
    """all valid sequences of the first k API kinds (None = no further API call)"""
    out = []

    def rec(seq, subs, regs):
        if len(seq) == k:
            out.append(list(seq))
            return
        if seq and seq[-1] is None:
            rec(seq + [None], subs, regs)
            return
        for a in apis:
            rec(seq + [a], subs + (a == "sub"), regs + (a == "reg"))
        if subs > 0:
            rec(seq + ["unsub"], subs - 1, regs)
        if regs > 0:
            rec(seq + ["unreg"], subs, regs - 1)
        if seq:
            rec(seq + [None], subs, regs)
    rec([], 0, 0)
    return out


def main(ctx):
    tier = ctx.tier
    depth = 8 if tier == "thorough" else 6
    full_depth = 7 if tier == "thorough" else 6
    for fw in ("tx", "aio"):
        jobs = []
        for s in shards(3 if tier == "thorough" else 2, API_KINDS):
            jobs.append({"kind": "bfs", "first": s, "depth": depth, "full_depth": full_depth,
                         "idseed": 0, "maxout": 3, "root": s[0] == API_KINDS[0] and s[1] is None})
        # id generator seeded just below 2**53: the wrap happens inside the explored histories
        for s in shards(2, API_KINDS):
            jobs.append({"kind": "bfs", "first": s, "depth": 5 if tier == "thorough" else 4,
                         "full_depth": 8, "idseed": 2 ** 53 - 2, "maxout": 3,
                         "root": s[0] == API_KINDS[0] and s[1] is None})
        for i in range(8):
            jobs.append({"kind": "flat", "part": i, "parts": 8})
        jobs.append({"kind": "flat2"})
        jobs.append({"kind": "reentrant"})
        jobs.append({"kind": "twosessions"})
        # the tiny single-API shards first: their counterexamples are the shortest
        jobs.sort(key=lambda j: (j["kind"] != "bfs", j.get("idseed", 0) != 0,
                                 -sum(1 for x in j.get("first", []) if x is None)))
        ctx.pmap({"fw": fw, "nvx": "1"}, "props.c04:job", jobs, chunksize=1)
    c = ctx.counters
    ctx.coverage["states"] = int(c["states"])
    ctx.coverage["transitions"] = int(c["transitions"])
    ctx.coverage["traces_validated_against_impl"] = int(c["evaluations"])
    ctx.coverage["distinct_nontrivial"] = int(c["nontrivial"])
    ctx.coverage["max_depth"] = depth
    for n in ("states", "transitions", "api:call:plain", "api:call:prog", "api:call:det",
              "api:call:progdet", "api:pub:1", "api:pub:0", "api:sub", "api:reg", "api:unsub",
              "api:unreg", "ev:res", "ev:err", "ev:ok", "ev:prog", "ev:dup", "ev:unk", "ev:wrong",
              "ev:wrongerr", "ev:event", "ev:inv", "v:complete", "v:progress", "v:violation",
              "v:unspecified", "protocol_error_raised", "three_outstanding", "two_kinds_outstanding",
              "reply_out_of_order", "id_wrapped", "flat_execs", "progress_details_delivered",
              "dup_after_result", "dup_after_error", "completed_ok", "completed_err",
              "reentrant_execs", "twosession_execs", "flat2_decorated_register",
              "flat2_decorated_subscribe", "flat2_encrypted_with_options", "unrequested_progress:ignored",
              "flat2_request_from_callback", "cancelled_call_cases", "given_up_request_cases",
              "codec_progressive_cases", "per_session_error_classes", "refused_send_cases"):
        ctx.require(n)


# ---------------------------------------------------------------------------------------
# worker side
# ---------------------------------------------------------------------------------------
def _payload(shape, rid, seed, tag):
    a1 = "%s%d" % (tag, rid)
    if shape == "none":
        return [], {}
    if shape == "arg1":
        return [a1], {}
    if shape == "args":
        return [a1, rid * 10 + seed], {}
    if shape == "kwargs":
        return [], {"k": a1, "n": rid + seed}
    if shape == "kwnames":
        # (ERROR replies only) keyword names that are also parameter names of exception constructors
        return [a1], {"error": a1, "callee": rid, "callee_authid": a1, "enc_algo": "x", "k": a1}
    return [a1, rid * 10 + seed], {"k": a1, "n": rid + seed}


class World:
    """real session + reference model + router-side bookkeeping, driven by events"""

    def __init__(self, idseed, seed):
        from harness import wamp_l1 as H
        from ref import wamp_session as R
        self.H, self.R = H, R
        self.seed = seed
        self.l1 = H.L1(idseed=idseed or None, observers=False).join()
        self.model = R.RequestModel(idseed=idseed or 0)
        self.napi = 0
        self.next_ident = 1
        self.progress_log = []     # (label, args, kwargs)
        self.handler_log = []      # (label, args, kwargs)
        self.objs = {}             # label -> Subscription / Registration (from the future)
        self.how = {}              # label -> ('ok'|'err', kind, rid)
        self.order = []            # labels in completion order
        self.viol = []             # (clause, kind, evclass, detail)
        self.sent0 = len(self.l1.transport.sent)
        self.wrapped = False

    # -- helpers ------------------------------------------------------------------------
    def fut_states(self):
        H = self.H
        out = {}
        for k in self.l1.futs:
            c = H.content_of(self.l1.fstate(k))
            if c[0] == "ok" and c[1] in ("subscription", "registration"):
                c = (c[0], c[1], c[2][:2])      # the 'active' flag legitimately changes later
            out[k] = c
        return out

    def digest(self):
        from mc.core import digest
        s = self.l1.session
        snap = {
            "reqs": {k: sorted(getattr(s, "_%s_reqs" % k).keys())
                     for k in ("call", "publish", "subscribe", "unsubscribe", "register", "unregister")},
            "subs": {str(k): [(x.active, x.topic) for x in v] for k, v in s._subscriptions.items()},
            "regs": {str(k): (v.procedure, v.active) for k, v in s._registrations.items()},
            "invs": sorted(s._invocations.keys()),
            "sid": s._session_id, "gb": s._goodbye_sent, "notr": s._transport is None,
            "nextid": s._request_id_gen._next,
            "tcalls": list(self.l1.transport.calls),
            "futs": [(k, self.l1.fstate(k)[0]) for k in self.l1.futs],
            "apis": [k for _, k in self.model.labels],
            "uerr": len(s.user_errors),
        }
        return digest(snap)

    def bad(self, clause, kind, evclass, detail):
        self.viol.append((clause, kind, evclass, detail))

    # -- enabled events (from the reference, i.e. what a router / application may do) ------
    def enabled(self, maxout, apis, allowed_api=None, shapes=SHAPES):
        """-> (state-changing events, events that must leave the state unchanged)"""
        m = self.model
        sc, nc = [], []

        def api_ok(a):
            return allowed_api is None or allowed_api == a
        out = m.outstanding()
        if allowed_api != "__none__":
            for a in apis:
                if (out < maxout or a == "pub:0") and api_ok(a):
                    sc.append(["api", a])
            if out < maxout:
                busy_s = set(r["target"] for r in m.pending["unsubscribe"].values())
                # a registration may be unregistered a second time while the first UNREGISTER is
                # unanswered (it stays active until UNREGISTERED): at most two pending per registration
                _cnt = {}
                for r in m.pending["unregister"].values():
                    _cnt[r["target"]] = _cnt.get(r["target"], 0) + 1
                busy_r = set(t for t, n_ in _cnt.items() if n_ >= 2)
                if api_ok("unsub"):
                    for sid in sorted(m.subs):
                        if sid not in busy_s and self.objs.get(m.subs[sid]) is not None:
                            sc.append(["api", "unsub", sid])
                if api_ok("unreg"):
                    for rg in sorted(m.regs):
                        if rg not in busy_r and self.objs.get(m.regs[rg]) is not None:
                            sc.append(["api", "unreg", rg])
        for kind in self.R.KINDS:
            for rid in sorted(m.pending[kind]):
                rec = m.pending[kind][rid]
                if kind == "call":
                    for sh in shapes:
                        sc.append(["res", rid, sh])
                        sc.append(["err", kind, rid, sh])
                        nc.append(["prog", rid, sh])
                    sc.append(["err", kind, rid, "kwnames"])
                else:
                    sc.append(["ok", kind, rid])
                    for sh in ("none", "both", "kwnames"):
                        sc.append(["err", kind, rid, sh])
                for other in self.R.KINDS:
                    if other != kind:
                        nc.append(["wrong", kind, rid, other])
                        nc.append(["wrongerr", kind, rid, other])
                if kind != "call":
                    nc.append(["wrong", kind, rid, "call-progress"])
        for label in self.order:
            h, kind, rid = self.how[label]
            nc.append(["dup", kind, rid, "ok", h])
            nc.append(["dup", kind, rid, "err", h])
            if kind == "call":
                nc.append(["dup", kind, rid, "prog", h])
        for other in self.R.KINDS:
            nc.append(["unk", other, "ok"])
            nc.append(["unk", other, "err"])
        nc.append(["unk", "call", "prog"])
        for sid in sorted(set(m.subs) | m.racing | m.released):
            for sh in ("none", "both"):
                nc.append(["event", sid, sh])
        nc.append(["event", UNKNOWN_ID, "both"])
        for rg in sorted(m.regs):
            nc.append(["inv", rg, "both"])
        nc.append(["inv", UNKNOWN_ID, "none"])
        return sc, nc

    # -- message construction -------------------------------------------------------------
    def _reply_msg(self, kind, rid, ident=None, args=None, kwargs=None, progress=False):
        from autobahn.wamp import message as M
        if kind == "call":
            return M.Result(rid, args=args or None, kwargs=kwargs or None, progress=progress or None)
        if kind == "publish":
            return M.Published(rid, ident)
        if kind == "subscribe":
            return M.Subscribed(rid, ident)
        if kind == "unsubscribe":
            return M.Unsubscribed(rid)
        if kind == "register":
            return M.Registered(rid, ident)
        if kind == "unregister":
            return M.Unregistered(rid)
        raise ValueError(kind)

    def _error_msg(self, kind, rid, args=None, kwargs=None):
        from autobahn.wamp import message as M
        return M.Error(self.R.REQ_CODE[kind], rid, "com.err.e%d" % (rid % 1000),
                       args=args or None, kwargs=kwargs or None)

    # -- applying one event ---------------------------------------------------------------
    def apply(self, ev, check=True, stats=None):
        k = ev[0]
        if k == "api":
            return self._api(ev, check, stats)
        return self._router(ev, check, stats)

    def _api(self, ev, check, stats):
        from autobahn.wamp import types as T
        l1, m, s = self.l1, self.model, self.l1.session
        a = ev[1]
        shape = SHAPES[self.napi % len(SHAPES)]
        self.napi += 1
        n = len(m.labels)
        args, kwargs = _payload(shape, n + 1, self.seed, "q")
        before = self.fut_states() if check else None
        n0 = len(l1.transport.sent)
        if a.startswith("call:"):
            var = a[5:]
            prog = "prog" in var
            det = "det" in var
            uri = "com.proc.p%d" % n
            label, wire = m.api("call", uri=uri, args=args, kwargs=kwargs, progress=prog, details=det)
            opts = None
            if prog or det:
                def on_progress(*pa, _l=label, **pk):
                    self.progress_log.append((_l, pa, pk))
                opts = T.CallOptions(on_progress=on_progress if prog else None,
                                     details=True if det else None)
            kw = dict(kwargs)
            if opts is not None:
                kw["options"] = opts
            r = l1.api(s.call, uri, *args, **kw)
            kind = "call"
        elif a.startswith("pub:"):
            ack = a == "pub:1"
            uri = "com.topic.t%d" % n
            label, wire = m.api("publish", uri=uri, args=args, kwargs=kwargs, acknowledge=ack)
            kw = dict(kwargs)
            if ack:
                kw["options"] = T.PublishOptions(acknowledge=True)
            r = l1.api(s.publish, uri, *args, **kw)
            kind = "publish"
        elif a == "sub":
            uri = "com.topic.s%d" % n
            label, wire = m.api("subscribe", uri=uri)

            def handler(*pa, _l=label, **pk):
                self.handler_log.append((_l, pa, pk))
            r = l1.api(s.subscribe, handler, uri)
            kind = "subscribe"
        elif a == "reg":
            uri = "com.proc.r%d" % n
            label, wire = m.api("register", uri=uri)

            def endpoint(*pa, _l=label, **pk):
                self.handler_log.append((_l, pa, pk))
                return "ret-" + _l
            r = l1.api(s.register, endpoint, uri)
            kind = "register"
        elif a == "unsub":
            sid = ev[2]
            obj = self.objs[m.subs[sid]]
            label, wire = m.api("unsubscribe", target=sid)
            r = l1.api(obj.unsubscribe)
            kind = "unsubscribe"
        elif a == "unreg":
            rg = ev[2]
            label, wire = m.api("unregister", target=rg)
            r = l1.api(self.objs[m.regs[rg]].unregister)
            kind = "unregister"
        else:
            raise ValueError(ev)
        rid = m.issued[-1]
        if len(m.issued) > 1 and rid < m.issued[-2]:
            self.wrapped = True
        if stats is not None:
            stats["api:" + (a if a not in ("unsub", "unreg") else a)] += 1
            if m.outstanding() >= 3:
                stats["three_outstanding"] += 1
            if sum(1 for t in m.pending.values() if t) >= 2:
                stats["two_kinds_outstanding"] += 1
        l1.settle()
        if r[0] == "ok" and label is not None and r[1] is not None:
            l1.track(label, r[1])
        if not check:
            return
        evc = "api-" + a.replace(":", "-")
        if r[0] == "raise":
            self.bad("api-raised", kind, evc, "%s raised %s" % (a, self.H.exc_brief(r[1])))
            return
        new = l1.wire(n0)
        if len(new) != 1:
            self.bad("request-count", kind, evc, "expected exactly one message, sent %r" % (new,))
        elif not self.R.same_wire(new[0], wire):
            g = self.R.norm_wire(new[0])
            clause = "request-id" if (len(g) > 1 and g[1] != wire[1]) else "request-wire"
            self.bad(clause, kind, evc, "expected %r sent %r" % (wire, g))
        if not (1 <= rid <= 2 ** 53):
            self.bad("request-id", kind, evc, "reference id out of range?! %r" % rid)
        if label is None:
            if r[1] is not None:
                self.bad("unexpected-future", kind, evc, "unacknowledged publish returned %r" % (r[1],))
        else:
            if r[1] is None:
                self.bad("no-future", kind, evc, "API returned None")
            elif l1.fstate(label)[0] != "pending":
                self.bad("future-not-pending", kind, evc, "fresh future is %r" % (l1.fbrief(label),))
        after = self.fut_states()
        for lb, st in before.items():
            if after[lb] != st:
                self.bad("other-future-touched", kind, evc, "%s: %r -> %r" % (lb, st, after[lb]))

    def _expect_content(self, content):
        """reference content -> predicate description the real future must match"""
        if content[0] == "result":
            _, args, kwargs, details = content
            if details or kwargs or len(args) > 1:
                return ("ok", "callresult", (args, kwargs))
            if len(args) == 1:
                return ("ok", "plain", args[0])
            return ("ok", "plain", None)
        if content[0] == "error":
            return ("err", "ApplicationError", content[1], content[2], content[3])
        if content[0] == "publication":
            return ("ok", "publication", content[1])
        if content[0] == "subscription":
            return ("ok", "subscription", (content[1], content[2]))
        if content[0] == "registration":
            return ("ok", "registration", (content[1], content[2]))
        return ("ok", None, None)       # completed without content

    def _router(self, ev, check, stats):
        from autobahn.wamp import message as M
        R, H = self.R, self.H
        l1, m = self.l1, self.model
        k = ev[0]
        seed = self.seed
        kind = ev[1] if k not in ("res", "prog", "event", "inv") else "call"
        evclass = k
        label_of = None
        if k == "res":
            rid, sh = ev[1], ev[2]
            a, kw = _payload(sh, rid, seed, "r")
            msg = self._reply_msg("call", rid, args=a, kwargs=kw)
            verdict = m.reply(R.RESULT, rid, args=a, kwargs=kw)
            evclass = "result-" + sh
        elif k == "prog":
            rid, sh = ev[1], ev[2]
            a, kw = _payload(sh, rid, seed, "p")
            msg = self._reply_msg("call", rid, args=a, kwargs=kw, progress=True)
            verdict = m.reply(R.RESULT, rid, args=a, kwargs=kw, progress=True)
            evclass = "progress-" + sh
        elif k == "err":
            kind, rid, sh = ev[1], ev[2], ev[3]
            a, kw = _payload(sh, rid, seed, "e")
            msg = self._error_msg(kind, rid, a, kw)
            verdict = m.reply(R.ERROR, rid, req_type=R.REQ_CODE[kind], args=a, kwargs=kw,
                              error=msg.error)
            evclass = "error-" + sh
        elif k == "ok":
            kind, rid = ev[1], ev[2]
            ident = self.next_ident
            self.next_ident += 1
            msg = self._reply_msg(kind, rid, ident=ident)
            verdict = m.reply(R.REPLY_CODE[kind], rid, ident=ident)
            evclass = "success"
        elif k == "dup":
            kind, rid, what, h = ev[1], ev[2], ev[3], ev[4]
            a, kw = _payload("both", rid, seed, "d")
            if what == "ok":
                msg = self._reply_msg(kind, rid, ident=UNKNOWN_ID + 1, args=a, kwargs=kw)
                verdict = m.reply(R.REPLY_CODE[kind], rid, ident=UNKNOWN_ID + 1, args=a, kwargs=kw)
            elif what == "err":
                msg = self._error_msg(kind, rid, a, kw)
                verdict = m.reply(R.ERROR, rid, req_type=R.REQ_CODE[kind], args=a, kwargs=kw)
            else:
                msg = self._reply_msg("call", rid, args=a, kwargs=kw, progress=True)
                verdict = m.reply(R.RESULT, rid, args=a, kwargs=kw, progress=True)
            evclass = "dup-%s-after-%s" % ({"ok": "result" if kind == "call" else "success",
                                            "err": "error", "prog": "progress"}[what], h)
            if stats is not None:
                stats["dup_after_result" if h == "ok" else "dup_after_error"] += 1
        elif k == "unk":
            kind, what = ev[1], ev[2]
            rid = UNKNOWN_ID
            a, kw = _payload("both", 7, seed, "u")
            if what == "ok":
                msg = self._reply_msg(kind, rid, ident=1, args=a, kwargs=kw)
                verdict = m.reply(R.REPLY_CODE[kind], rid, ident=1)
            elif what == "err":
                msg = self._error_msg(kind, rid, a, kw)
                verdict = m.reply(R.ERROR, rid, req_type=R.REQ_CODE[kind])
            else:
                msg = self._reply_msg("call", rid, args=a, kwargs=kw, progress=True)
                verdict = m.reply(R.RESULT, rid, progress=True)
            evclass = "unknown-id-" + what
        elif k == "wrong":
            kind, rid, other = ev[1], ev[2], ev[3]
            a, kw = _payload("both", rid, seed, "w")
            if other == "call-progress":
                msg = self._reply_msg("call", rid, args=a, kwargs=kw, progress=True)
                verdict = m.reply(R.RESULT, rid, progress=True)
            else:
                msg = self._reply_msg(other, rid, ident=1, args=a, kwargs=kw)
                verdict = m.reply(R.REPLY_CODE[other], rid, ident=1)
            evclass = "wrong-type-" + other
        elif k == "wrongerr":
            kind, rid, other = ev[1], ev[2], ev[3]
            a, kw = _payload("both", rid, seed, "w")
            msg = self._error_msg(other, rid, a, kw)
            verdict = m.reply(R.ERROR, rid, req_type=R.REQ_CODE[other])
            evclass = "error-wrong-request-type-" + other
        elif k == "event":
            sid, sh = ev[1], ev[2]
            pend = sorted(r for t in m.pending.values() for r in t)
            pubid = pend[0] if pend else 1       # collides with a pending request id on purpose
            a, kw = _payload(sh, sid, seed, "v")
            msg = M.Event(sid, pubid, args=a or None, kwargs=kw or None)
            verdict = m.event(sid)
            kind = "subscribe"
            evclass = {"deliver": "event", "drop": "event-racing-unsubscribe",
                       "either": "event-released-subscription"}.get(verdict["v"], "event-unknown-subscription")
        elif k == "inv":
            rg, sh = ev[1], ev[2]
            pend = sorted(r for t in m.pending.values() for r in t)
            irid = pend[0] if pend else 1
            a, kw = _payload(sh, rg, seed, "i")
            msg = M.Invocation(irid, rg, args=a or None, kwargs=kw or None)
            verdict = m.invocation(rg)
            kind = "register"
            evclass = "invocation" if verdict["v"] == "invoke" else "invocation-unknown-registration"
        else:
            raise ValueError(ev)
        v = verdict["v"]
        if stats is not None:
            stats["ev:" + k] += 1
            stats["v:" + v] += 1
            if len(m.labels) > 0:
                stats["nontrivial"] += 1
            if v == "complete":
                # reply order vs request order
                older = [r for t in m.pending.values() for r in t if r < ev[2 if k in ("ok", "err") else 1]]
                if older:
                    stats["reply_out_of_order"] += 1
        before = self.fut_states() if check else None
        dg0 = self.digest() if (check and v in ("violation", "progress", "deliver", "invoke")) else None
        np0, nh0 = len(self.progress_log), len(self.handler_log)
        n0 = len(l1.transport.sent)
        nc0 = len(l1.transport.calls)
        exc = l1.deliver(msg)
        # router-side bookkeeping
        if v == "complete":
            lb = verdict["label"]
            c = verdict["content"]
            self.how[lb] = ("err" if c[0] == "error" else "ok", verdict["rec"]["kind"], verdict["rec"]["id"])
            self.order.append(lb)
            st = l1.fstate(lb)
            if st[0] == "ok" and c[0] in ("subscription", "registration"):
                self.objs[lb] = st[1]
                if check and getattr(st[1], "active", None) is not True:
                    self.bad("wrong-content", kind, evclass, "%s resolved with an inactive object" % lb)
            if stats is not None:
                stats["completed_err" if c[0] == "error" else "completed_ok"] += 1
        if not check:
            return
        if exc is not None and H.is_protocol_error(exc) and stats is not None:
            stats["protocol_error_raised"] += 1
        after = self.fut_states()
        changed = [lb for lb in before if after[lb] != before[lb]]
        multi = [lb for lb in after if after[lb][0] == "multi"]
        for lb in multi:
            self.bad("double-completion", kind, evclass, "%s fired %d times" % (lb, after[lb][1]))
        if exc is not None and not H.is_protocol_error(exc):
            en = type(exc).__name__
            if en in ("AlreadyCalledError", "InvalidStateError"):
                self.bad("double-completion", kind, evclass, "onMessage raised %s" % H.exc_brief(exc))
            else:
                self.bad("escape", kind, evclass + "|" + en, "onMessage raised %s" % H.exc_brief(exc))
        aborted = len(l1.transport.calls) > nc0
        newsent = l1.wire(n0)
        if v == "complete":
            lb = verdict["label"]
            want = self._expect_content(verdict["content"])
            got = after[lb]
            if exc is not None and H.is_protocol_error(exc):
                self.bad("reply-rejected", kind, evclass, "legal reply raised %s" % H.exc_brief(exc))
            if got[0] == "pending":
                self.bad("not-completed", kind, evclass, "%s still pending after its reply" % lb)
            elif got[0] != "multi":
                ok = (got[0] == want[0]) and (want[1] is None or tuple(got[1:]) == tuple(want[1:]) or
                                              _same_content(got, want))
                if not ok:
                    self.bad("wrong-content", kind, evclass, "%s: expected %r got %r" % (lb, want, got))
            for o in changed:
                if o != lb:
                    self.bad("other-future-touched", kind, evclass, "%s: %r -> %r (reply was for %s)" % (
                        o, before[o], after[o], lb))
            if len(self.progress_log) != np0:
                self.bad("progress-misrouted", kind, evclass, "final reply reached on_progress: %r" % (
                    self.progress_log[np0:],))
        elif v == "progress":
            lb = verdict["label"]
            if exc is not None and H.is_protocol_error(exc):
                self.bad("reply-rejected", kind, evclass, "progressive result raised %s" % H.exc_brief(exc))
            for o in changed:
                self.bad("other-future-touched" if o != lb else "completed-by-progress", kind, evclass,
                         "%s: %r -> %r" % (o, before[o], after[o]))
            got = self.progress_log[np0:]
            if len(got) != 1:
                if exc is None:
                    self.bad("progress-missing" if not got else "progress-duplicated", kind, evclass,
                             "on_progress of %s called %d times" % (lb, len(got)))
            else:
                gl, ga, gk = got[0]
                if verdict["details"]:
                    if len(ga) == 1 and type(ga[0]).__name__ == "CallResult" and not gk:
                        ga, gk = list(ga[0].results), dict(ga[0].kwresults)
                        if stats is not None:
                            stats["progress_details_delivered"] += 1
                    else:
                        self.bad("progress-content", kind, evclass, "details requested but on_progress got "
                                 "args=%r kwargs=%r" % (ga, gk))
                if gl != lb:
                    self.bad("progress-misrouted", kind, evclass, "progress of %s reached %s" % (lb, gl))
                elif list(ga) != verdict["args"] or dict(gk) != verdict["kwargs"]:
                    self.bad("progress-content", kind, evclass, "expected %r %r got %r %r" % (
                        verdict["args"], verdict["kwargs"], list(ga), gk))
            if dg0 != self.digest():
                self.bad("state-changed", kind, evclass, "progressive result changed the session state")
        elif v == "violation":
            for o in changed:
                clause = "double-completion" if before[o][0] != "pending" else "matched-wrong-reply"
                self.bad(clause, kind, evclass, "%s: %r -> %r" % (o, before[o], after[o]))
            if len(self.progress_log) != np0:
                self.bad("progress-misrouted", kind, evclass, "%r" % (self.progress_log[np0:],))
            if len(self.handler_log) != nh0:
                self.bad("handler-invoked", kind, evclass, "%r" % (self.handler_log[nh0:],))
            if exc is None and not aborted:
                self.bad("no-protocol-error", kind, evclass,
                         "message matching no pending request was accepted silently: %r" % (msg.marshal(),))
            if dg0 != self.digest():
                self.bad("state-changed", kind, evclass, "rejected message changed the session state")
        elif v == "unspecified":
            # a progressive RESULT for a call that did not ask for progress: the router broke the
            # protocol first.  Ignoring it or treating it as a protocol violation are both fine;
            # but a progressive result never completes a call (it may only reach a progress
            # handler), never touches another request and never crashes the session.
            if stats is not None:
                stats["unrequested_progress:" + ("rejected" if exc is not None else "ignored")] += 1
            for o in changed:
                if o != verdict.get("label"):
                    self.bad("other-future-touched", kind, evclass, "%s: %r -> %r" % (o, before[o], after[o]))
                elif exc is None and not aborted:
                    self.bad("completed-by-progress", kind, evclass, "%s: %r -> %r by a progressive "
                             "RESULT it did not ask for" % (o, before[o], after[o]))
            if len(self.progress_log) != np0:
                self.bad("progress-misrouted", kind, evclass, "%r" % (self.progress_log[np0:],))
        elif v in ("drop", "either"):
            for o in changed:
                self.bad("other-future-touched", kind, evclass, "%s: %r -> %r" % (o, before[o], after[o]))
            if len(self.handler_log) != nh0:
                self.bad("handler-after-unsubscribe", kind, evclass, "%r" % (self.handler_log[nh0:],))
            if exc is not None and v == "drop":
                self.bad("racing-event-not-dropped", kind, evclass, "raised %s" % H.exc_brief(exc))
        elif v in ("deliver", "invoke"):
            for o in changed:
                self.bad("other-future-touched", kind, evclass, "%s: %r -> %r" % (o, before[o], after[o]))
            if exc is not None and H.is_protocol_error(exc):
                self.bad("reply-rejected", kind, evclass, "raised %s" % H.exc_brief(exc))
            got = self.handler_log[nh0:]
            lb = m.subs[ev[1]] if v == "deliver" else m.regs[ev[1]]
            a, kw = _payload(ev[2], ev[1], seed, "v" if v == "deliver" else "i")
            if len(got) != 1 or got[0][0] != lb or list(got[0][1]) != a or dict(got[0][2]) != kw:
                self.bad("handler-args", kind, evclass, "expected one call of %s with %r %r, got %r" % (
                    lb, a, kw, got))
            if v == "invoke":
                if len(newsent) != 1 or newsent[0][0] != R.YIELD or newsent[0][1] != msg.request:
                    self.bad("yield", kind, evclass, "sent %r" % (newsent,))
            elif newsent:
                self.bad("spurious-send", kind, evclass, "sent %r" % (newsent,))
            # the digest may differ only through nothing: invocations complete synchronously
            if dg0 != self.digest():
                self.bad("state-changed", kind, evclass, "event/invocation changed the request state")
        if v not in ("invoke",) and newsent and v != "deliver":
            self.bad("spurious-send", kind, evclass, "sent %r" % (newsent,))


def _same_content(got, want):
    """compare normalised contents tolerant of list/tuple"""
    from ref.wamp_session import norm_wire
    return norm_wire(list(got)) == norm_wire(list(want))


def _rebuild(history, idseed, seed):
    w = World(idseed, seed)
    for ev in history:
        w.apply(ev, check=False)
    return w


def _mk_viol(env, a, history, ev, v):
    clause, kind, evclass, detail = v
    return {"sig": "C04|%s|%s|%s" % (clause, kind, evclass),
            "desc": "[fw=%s idseed=%s] history=%s event=%s: %s" % (
                env.get("fw"), a.get("idseed"), history, ev, detail),
            "replay": {"env": {"fw": env.get("fw"), "nvx": "1"}, "func": "props.c04:replay",
                       "arg": {"history": history + [ev], "idseed": a.get("idseed", 0)}}}


def _job_reentrant(a, env, seed):
    """replies that arrive re-entrantly, from inside ITransport.send() (in-process / loop-back
    routers answer synchronously): for every request kind, the reply to the request being sent -
    and, for sequences of two requests, the reply to the earlier one - is delivered to
    session.onMessage() while send() of a request is still on the stack.  The returned future
    must complete exactly once with that reply; nothing may be treated as a protocol violation."""
    import itertools
    from harness import wamp_l1 as H
    from autobahn.wamp import message as M
    from autobahn.wamp import types as T
    viol = []
    stats = {"reentrant_execs": 0, "nontrivial": 0}
    seen = {}

    def bad(clause, kind, detail):
        sig = "C04|reentrant-%s|%s" % (clause, kind)
        seen[sig] = seen.get(sig, 0) + 1
        if seen[sig] <= 2:
            viol.append({"sig": sig, "desc": "[fw=%s] %s" % (env.get("fw"), detail),
                         "replay": {"env": {"fw": env.get("fw"), "nvx": "1"}, "func": "props.c04:job",
                                    "arg": a}})
    kinds = ["call", "publish", "subscribe", "register", "unsubscribe", "unregister"]
    modes = ["self-ok", "self-err", "earlier-ok"]
    for kind, mode in itertools.product(kinds, modes):
        l1 = H.L1()
        l1.join()
        s = l1.session
        tr = l1.transport
        # prerequisites for unsubscribe / unregister (answered normally)
        obj = None
        if kind in ("unsubscribe", "unregister"):
            n0 = len(tr.sent)
            if kind == "unsubscribe":
                r = l1.api(s.subscribe, lambda *x, **y: None, "com.t.pre")
                l1.settle()
                l1.deliver(M.Subscribed(tr.sent[n0].request, 777))
            else:
                r = l1.api(s.register, lambda *x, **y: None, "com.p.pre")
                l1.settle()
                l1.deliver(M.Registered(tr.sent[n0].request, 888))
            l1.settle()
            l1.track("pre", r[1])
            st = l1.fstate("pre")
            if st[0] != "ok":
                raise RuntimeError("harness: prerequisite failed %r" % (st,))
            obj = st[1]
        earlier = None
        if mode == "earlier-ok":
            n0 = len(tr.sent)
            r0 = l1.api(s.call, "com.p.earlier", 1)
            l1.settle()
            l1.track("earlier", r0[1])
            earlier = tr.sent[n0].request
        escaped = []
        orig_send = tr.send

        def reply_for(msg):
            if mode == "earlier-ok":
                return M.Result(earlier, args=["earlier-result"])
            ok = mode == "self-ok"
            if isinstance(msg, M.Call):
                return M.Result(msg.request, args=["r"]) if ok else \
                    M.Error(M.Call.MESSAGE_TYPE, msg.request, "com.err.x", args=["e"])
            if isinstance(msg, M.Publish):
                return M.Published(msg.request, 4242) if ok else \
                    M.Error(M.Publish.MESSAGE_TYPE, msg.request, "com.err.x", args=["e"])
            if isinstance(msg, M.Subscribe):
                return M.Subscribed(msg.request, 5151) if ok else \
                    M.Error(M.Subscribe.MESSAGE_TYPE, msg.request, "com.err.x", args=["e"])
            if isinstance(msg, M.Register):
                return M.Registered(msg.request, 6161) if ok else \
                    M.Error(M.Register.MESSAGE_TYPE, msg.request, "com.err.x", args=["e"])
            if isinstance(msg, M.Unsubscribe):
                return M.Unsubscribed(msg.request) if ok else \
                    M.Error(M.Unsubscribe.MESSAGE_TYPE, msg.request, "com.err.x", args=["e"])
            if isinstance(msg, M.Unregister):
                return M.Unregistered(msg.request) if ok else \
                    M.Error(M.Unregister.MESSAGE_TYPE, msg.request, "com.err.x", args=["e"])
            return None
        fired = []

        def send(msg):
            orig_send(msg)
            if fired:
                return
            rp = reply_for(msg)
            if rp is not None:
                fired.append(rp)
                try:
                    s.onMessage(rp)      # re-entrant delivery, send() still on the stack
                except Exception as e:
                    escaped.append(e)
        tr.send = send
        if kind == "call":
            r = l1.api(s.call, "com.p.x", 1, 2)
        elif kind == "publish":
            r = l1.api(s.publish, "com.t.x", 1, options=T.PublishOptions(acknowledge=True))
        elif kind == "subscribe":
            r = l1.api(s.subscribe, lambda *x, **y: None, "com.t.x")
        elif kind == "register":
            r = l1.api(s.register, lambda *x, **y: None, "com.p.x")
        elif kind == "unsubscribe":
            r = l1.api(obj.unsubscribe)
        else:
            r = l1.api(obj.unregister)
        tr.send = orig_send
        l1.settle()
        stats["reentrant_execs"] += 1
        stats["nontrivial"] += 1
        tag = "%s/%s" % (kind, mode)
        if escaped:
            bad("reply-rejected", tag, "%s: reply delivered inside send() raised %r" % (tag, escaped[0]))
        if r[0] == "raise":
            bad("api-raised", tag, "%s: API call raised %r" % (tag, r[1]))
            continue
        l1.track("req", r[1])
        l1.settle()
        st = l1.fstate("req")
        if mode == "earlier-ok":
            se = l1.fstate("earlier")
            if se[0] != "ok":
                bad("earlier-not-completed", tag, "%s: earlier call is %r" % (tag, l1.fbrief("earlier")))
            if st[0] != "pending":
                bad("later-touched", tag, "%s: the request being sent is %r" % (tag, l1.fbrief("req")))
        elif mode == "self-ok":
            if st[0] != "ok":
                bad("not-completed", tag, "%s: future is %r after its reply arrived inside send()" % (
                    tag, l1.fbrief("req")))
        else:
            if st[0] != "err":
                bad("not-failed", tag, "%s: future is %r after its ERROR arrived inside send()" % (
                    tag, l1.fbrief("req")))
        # a duplicate of the reply afterwards must still be a protocol violation, not a completion
        if mode != "earlier-ok" and fired:
            e = l1.deliver(fired[0])
            st2 = l1.fstate("req")
            if st2[0] == "multi":
                bad("completed-twice", tag, "%s: duplicate reply completed the future again" % tag)
    return {"evals": stats["reentrant_execs"], "viol": viol, "stats": stats,
            "samples": [{"kind": "reentrant", "cases": stats["reentrant_execs"]}]}


def _job_twosessions(a, env, seed):
    """two sessions alive in one process issue requests that get the SAME request ids (each session
    counts from 1).  A reply delivered to one session completes that session's request only; the
    other session's request with the same id stays pending; an id that is pending only on the OTHER
    session is unknown here (protocol violation)."""
    import itertools
    from harness import wamp_l1 as H
    from autobahn.wamp import message as M
    from autobahn.wamp import types as T
    viol = []
    stats = {"twosession_execs": 0, "nontrivial": 0}
    seen = {}

    def bad(clause, detail):
        sig = "C04|two-sessions-%s" % clause
        seen[sig] = seen.get(sig, 0) + 1
        if seen[sig] <= 2:
            viol.append({"sig": sig, "desc": "[fw=%s] %s" % (env.get("fw"), detail),
                         "replay": {"env": {"fw": env.get("fw"), "nvx": "1"}, "func": "props.c04:job", "arg": a}})

    def issue(l1, kind, tag):
        s = l1.session
        if kind == "call":
            r = l1.api(s.call, "com.p.%s" % tag, tag)
        elif kind == "publish":
            r = l1.api(s.publish, "com.t.%s" % tag, tag, options=T.PublishOptions(acknowledge=True))
        elif kind == "subscribe":
            r = l1.api(s.subscribe, lambda *x, **y: None, "com.t.%s" % tag)
        else:
            r = l1.api(s.register, lambda *x, **y: None, "com.p.%s" % tag)
        l1.settle()
        if r[0] != "ok":
            raise RuntimeError("harness: %s raised %r" % (kind, r[1]))
        l1.track(kind, r[1])
        return l1.transport.sent[-1].request

    def reply(kind, rid, tag):
        if kind == "call":
            return M.Result(rid, args=["result-for-" + tag])
        if kind == "publish":
            return M.Published(rid, 1000 + len(tag))
        if kind == "subscribe":
            return M.Subscribed(rid, 2000 + len(tag))
        return M.Registered(rid, 3000 + len(tag))
    kinds = ["call", "publish", "subscribe", "register"]
    for ka, kb in itertools.product(kinds, repeat=2):
        for order in ("a-first", "b-first", "only-a"):
            A, B = H.L1(), H.L1()
            # NB: both sessions live at the same time; each L1() creates its own clock/loop
            A.join()
            B.join()
            ra = issue(A, ka, "AAAA")
            rb = issue(B, kb, "BB")
            if ra != rb:
                raise RuntimeError("harness: ids differ %r %r" % (ra, rb))
            stats["twosession_execs"] += 1
            stats["nontrivial"] += 1
            tag = "%s/%s/%s" % (ka, kb, order)
            seqs = {"a-first": [("A", A, ka, "AAAA"), ("B", B, kb, "BB")],
                    "b-first": [("B", B, kb, "BB"), ("A", A, ka, "AAAA")],
                    "only-a": [("A", A, ka, "AAAA")]}[order]
            for (nm, l1, k, tg) in seqs:
                other = B if l1 is A else A
                ok_ = kb if l1 is A else ka
                before = other.fstate(ok_)
                exc = l1.deliver(reply(k, ra, tg))
                l1.settle()
                other.settle()
                st = l1.fstate(k)
                if exc is not None or st[0] != "ok":
                    bad("own-reply-not-accepted", "%s: session %s got its own reply: exc=%r future=%r" % (
                        tag, nm, exc, l1.fbrief(k)))
                after = other.fstate(ok_)
                if after != before and not (before[0] == "ok" and after[0] == "ok"):
                    bad("other-session-touched", "%s: reply delivered to session %s changed the other "
                        "session's request: %r -> %r" % (tag, nm, before, after))
            if order == "only-a":
                # B's request is still pending; a reply for an id that is pending only on B must be a
                # protocol violation on A (A's request with that id is already completed)
                exc = A.deliver(reply(ka, ra, "AAAA"))
                if exc is None:
                    bad("duplicate-accepted", "%s: second reply with id %d accepted on session A while "
                        "session B has that id pending" % (tag, ra))
                if B.fstate(kb)[0] != "pending":
                    bad("other-session-touched", "%s: duplicate on A completed B's request: %r" % (
                        tag, B.fbrief(kb)))
    # ---- the error a failed request completes with is the one ITS reply carries, surfaced through
    # the classes registered on ITS session: define() on session A does not change what session B's
    # requests complete with (each kind of request; A defines before or after B was created)
    from autobahn.wamp.exception import ApplicationError

    class ErrorOfA(Exception):
        def __init__(self, *a_, **k_):
            Exception.__init__(self, *a_)
    reqtype = {"call": M.Call, "publish": M.Publish, "subscribe": M.Subscribe, "register": M.Register}
    for kind in kinds:
        for when in ("before-b-exists", "after-b-exists"):
            A = H.L1().join()
            if when == "before-b-exists":
                A.session.define(ErrorOfA, "com.shared.error")
            B = H.L1().join()
            if when == "after-b-exists":
                A.session.define(ErrorOfA, "com.shared.error")
            for nm, l1 in (("A", A), ("B", B)):
                rid = issue(l1, kind, "E" + nm)
                exc = l1.deliver(M.Error(reqtype[kind].MESSAGE_TYPE, rid, "com.shared.error", args=["why", nm]))
                l1.settle()
                st = l1.fstate(kind)
                stats["twosession_execs"] += 1
                stats["per_session_error_classes"] = stats.get("per_session_error_classes", 0) + 1
                want_cls = ErrorOfA if nm == "A" else ApplicationError
                if exc is not None or st[0] != "err":
                    bad("error-reply-not-accepted", "%s %s: ERROR reply raised %r, future %r" % (kind, when, exc, l1.fbrief(kind)))
                elif type(st[1]) is not want_cls:
                    bad("error-class-of-other-session", "%s, session A define()s a class for com.shared.error (%s): "
                        "session %s's failed request completed with %s, expected %s" % (
                            kind, when, nm, type(st[1]).__name__, want_cls.__name__))
                elif nm == "B" and (st[1].error != "com.shared.error" or list(st[1].args) != ["why", "B"]):
                    bad("wrong-content", "%s: session B's error carries %r %r" % (kind, st[1].error, st[1].args))
    return {"evals": stats["twosession_execs"], "viol": viol, "stats": stats,
            "samples": [{"kind": "twosessions", "cases": stats["twosession_execs"]}]}


def job(a):
    if a.get("kind") == "twosessions":
        from mc import worker as _w
        return _job_twosessions(a, _w.ENV, int(_w.ENV.get("seed", 0)))
    if a.get("kind") == "reentrant":
        from mc import worker as _w
        return _job_reentrant(a, _w.ENV, int(_w.ENV.get("seed", 0)))
    import collections
    from mc import worker
    env = worker.ENV
    seed = int(env.get("seed", 0))
    if a["kind"] == "flat":
        return _job_flat(a, env, seed)
    if a["kind"] == "flat2":
        return _job_flat2(a, env, seed)
    first = a["first"]
    depth, full_depth, idseed, maxout = a["depth"], a["full_depth"], a["idseed"], a["maxout"]
    stats = collections.Counter()
    viol, persig = [], {}
    evals = 0
    samples = []

    def report(history, ev, vs):
        for v in vs:
            sig = (v[0], v[1], v[2])
            persig[sig] = persig.get(sig, 0) + 1
            if persig[sig] <= 2:
                viol.append(_mk_viol(env, a, history, ev, v))
            else:
                stats["violations_not_listed"] += 1

    def allowed(history):
        n = sum(1 for e in history if e[0] == "api")
        if n < len(first):
            return first[n] if first[n] is not None else "__none__"
        if first and first[-1] is None:
            return "__none__"
        return None
    need = sum(1 for x in first if x is not None)

    def owned(history):
        """prefix states are shared between shards: count (and probe) them in one shard only"""
        n = sum(1 for e in history if e[0] == "api")
        return n >= need
    w0 = World(idseed, seed)
    seen = {w0.digest()}
    frontier = [[]]
    if a.get("root"):
        stats["states"] += 1
    for level in range(depth):
        nxt = []
        apis = API_KINDS if level < full_depth else CORE_APIS
        for h in frontier:
            w = _rebuild(h, idseed, seed)
            evals += 1
            al = allowed(h)
            sc, nc = w.enabled(maxout, apis, al, SHAPES if level < full_depth else ["both"])
            # events that must not change the state: applied one after the other on one object
            own_h = owned(h) or (a.get("root") and not h)
            for ev in (nc if own_h else []):
                nv = len(w.viol)
                w.apply(ev, check=True, stats=stats)
                stats["transitions"] += 1
                if len(w.viol) > nv:
                    # confirm on a fresh object so that the replay is self-contained
                    w2 = _rebuild(h, idseed, seed)
                    w2.apply(ev, check=True)
                    evals += 1
                    if w2.viol:
                        report(h, ev, w2.viol)
                    else:
                        report(h, ev, [(x[0], x[1], x[2] + "|after-other-rejected-messages", x[3])
                                       for x in w.viol[nv:]])
                    w = _rebuild(h, idseed, seed)
                    evals += 1
            for ev in sc:
                w = _rebuild(h, idseed, seed)
                w.apply(ev, check=True, stats=stats)
                evals += 1
                own_t = owned(h + [ev])
                if own_t:
                    stats["transitions"] += 1
                if w.wrapped:
                    stats["id_wrapped"] += 1
                if w.viol:
                    report(h, ev, w.viol)
                    continue            # do not explore beyond a violating transition
                d = w.digest()
                if d not in seen:
                    seen.add(d)
                    if own_t:
                        stats["states"] += 1
                    if level + 1 < depth:
                        nxt.append(h + [ev])
                    if len(samples) < 1 and level == depth - 1:
                        samples.append({"history": h + [ev], "futures": {k: w.l1.fbrief(k) for k in w.l1.futs}})
        frontier = nxt
    return {"evals": evals, "viol": viol, "stats": dict(stats), "samples": samples}


def _job_flat(a, env, seed):
    """depth 1-2: every API kind x option set x request payload shape (+ every reply shape)"""
    import collections
    from harness import wamp_l1 as H
    from ref import wamp_session as R
    from autobahn.wamp import types as T
    stats = collections.Counter()
    viol, persig = [], {}
    cases = []
    for sh in SHAPES:
        for i, (mk, exp) in enumerate([
                (lambda: None, {}),
                (lambda: T.CallOptions(timeout=5), {"timeout": 5}),
                (lambda: T.CallOptions(on_progress=lambda *a_, **k_: None), {"receive_progress": True}),
                (lambda: T.CallOptions(details=True), {}),
                (lambda: T.CallOptions(on_progress=lambda *a_, **k_: None, timeout=7, details=True),
                 {"receive_progress": True, "timeout": 7})]):
            cases.append(("call", sh, i, mk, exp))
        for i, (mk, exp) in enumerate([
                (lambda: None, {}),
                (lambda: T.PublishOptions(acknowledge=True), {"acknowledge": True}),
                (lambda: T.PublishOptions(acknowledge=True, exclude_me=False), {"acknowledge": True, "exclude_me": False}),
                (lambda: T.PublishOptions(exclude=[7, 8], eligible=[9], retain=True),
                 {"exclude": [7, 8], "eligible": [9], "retain": True}),
                (lambda: T.PublishOptions(acknowledge=True, exclude_authid=["a"], eligible_authrole=["r"]),
                 {"acknowledge": True, "exclude_authid": ["a"], "eligible_authrole": ["r"]}),
                # receiver lists computed at run time that turn out empty: "nobody is eligible" is
                # not "everybody is"
                (lambda: T.PublishOptions(eligible=[]), {"eligible": []}),
                (lambda: T.PublishOptions(acknowledge=True, eligible_authid=[], eligible_authrole=[]),
                 {"acknowledge": True, "eligible_authid": [], "eligible_authrole": []}),
                # single values are sent as one-element lists
                (lambda: T.PublishOptions(exclude=7, eligible=9, exclude_authid="a", eligible_authrole="r"),
                 {"exclude": [7], "eligible": [9], "exclude_authid": ["a"], "eligible_authrole": ["r"]})]):
            cases.append(("publish", sh, i, mk, exp))
    for i, (mk, exp) in enumerate([
            (lambda: None, {}),
            (lambda: T.SubscribeOptions(match="prefix"), {"match": "prefix"}),
            (lambda: T.SubscribeOptions(match="wildcard", get_retained=True), {"match": "wildcard", "get_retained": True}),
            (lambda: T.SubscribeOptions(get_retained=True), {"get_retained": True}),
            (lambda: T.SubscribeOptions(match="exact"), {}),        # the default policy is not spelled out
            (lambda: T.SubscribeOptions(details=True), {})]):
        cases.append(("subscribe", "none", i, mk, exp))
    for i, (mk, exp) in enumerate([
            (lambda: None, {}),
            (lambda: T.RegisterOptions(match="prefix"), {"match": "prefix"}),
            (lambda: T.RegisterOptions(invoke="roundrobin", concurrency=2), {"invoke": "roundrobin", "concurrency": 2}),
            # every option alone (no option rides on another one being given)
            (lambda: T.RegisterOptions(concurrency=3), {"concurrency": 3}),
            (lambda: T.RegisterOptions(invoke="single", concurrency=1), {"concurrency": 1}),
            (lambda: T.RegisterOptions(invoke="random"), {"invoke": "random"}),
            (lambda: T.RegisterOptions(invoke="first"), {"invoke": "first"}),
            (lambda: T.RegisterOptions(invoke="last"), {"invoke": "last"}),
            (lambda: T.RegisterOptions(force_reregister=True), {"force_reregister": True}),
            (lambda: T.RegisterOptions(match="wildcard", concurrency=2), {"match": "wildcard", "concurrency": 2}),
            (lambda: T.RegisterOptions(details=True), {})]):
        cases.append(("register", "none", i, mk, exp))
    cases = cases[a["part"]::a["parts"]]
    evals = 0
    for kind, sh, oi, mk, exp in cases:
        for pre in (0, 1, 2):         # API calls issued before: the id must be pre+1
            l1 = H.L1().join()
            m = R.RequestModel()
            s = l1.session
            for j in range(pre):
                m.api("call", uri="com.pre", args=[j])
                l1.track("pre%d" % j, s.call("com.pre", j))
            opts = mk()
            args, kwargs = _payload(sh, 3 + oi, seed, "f")
            uri = "com.flat.%s%d" % (kind[:3], oi)
            n0 = len(l1.transport.sent)
            kw = dict(kwargs)
            if opts is not None:
                kw["options"] = opts
            if kind == "call":
                _, wire = m.api("call", uri=uri, args=args, kwargs=kwargs, options=exp)
                r = l1.api(s.call, uri, *args, **kw)
            elif kind == "publish":
                _, wire = m.api("publish", uri=uri, args=args, kwargs=kwargs, options=exp)
                r = l1.api(s.publish, uri, *args, **kw)
            elif kind == "subscribe":
                _, wire = m.api("subscribe", uri=uri, options=exp)
                r = l1.api(s.subscribe, lambda *a_, **k_: None, uri, options=opts)
            else:
                _, wire = m.api("register", uri=uri, options=exp)
                r = l1.api(s.register, lambda *a_, **k_: None, uri, options=opts)
            l1.settle()
            evals += 1
            stats["flat_execs"] += 1
            stats["transitions"] += 1
            new = l1.wire(n0)
            prob = None
            if r[0] == "raise":
                prob = ("api-raised", "raised %s" % H.exc_brief(r[1]))
            elif len(new) != 1:
                prob = ("request-count", "sent %r" % (new,))
            elif not R.same_wire(new[0], wire):
                prob = ("request-wire", "expected %r sent %r" % (wire, R.norm_wire(new[0])))
            if r[0] == "ok" and r[1] is not None:
                l1.track("x", r[1])
            if prob:
                sig = "C04|%s|%s|flat-opt%d-%s" % (prob[0], kind, oi, sh)
                persig[sig] = persig.get(sig, 0) + 1
                if persig[sig] <= 1:
                    viol.append({"sig": sig, "desc": "[fw=%s] %s options#%d shape=%s after %d calls: %s" % (
                        env.get("fw"), kind, oi, sh, pre, prob[1]),
                        "replay": {"env": {"fw": env.get("fw"), "nvx": "1"}, "func": "props.c04:job",
                                   "arg": a}})
    return {"evals": evals, "viol": viol, "stats": dict(stats),
            "samples": [{"kind": "flat", "cases": len(cases)}]}


def _job_flat2(a, env, seed):
    """requests issued through the less travelled entry points:
    (1) register(obj) / subscribe(obj) with decorated methods - every method's request carries ITS
        options (the decorator's if it has some, else the options of the call), whatever the other
        methods of the object use, in every order of declaration;
    (2) call / publish with options while a payload codec is active: the request still carries the
        given options (acknowledge, exclude_me, timeout, ...) next to the encrypted payload."""
    import collections
    import itertools
    from harness import wamp_l1 as H
    from ref import wamp_session as R
    from autobahn import wamp
    from autobahn.wamp import types as T
    stats = collections.Counter()
    viol = []

    def bad(clause, detail):
        if len(viol) < 10:
            viol.append({"sig": "C04|%s|flat2" % clause, "desc": "[fw=%s] %s" % (env.get("fw"), detail),
                         "replay": {"env": {"fw": env.get("fw"), "nvx": "1"}, "func": "props.c04:job",
                                    "arg": a}})
    evals = 0
    # ---- (1) decorated objects
    deco = {"A": (T.RegisterOptions(match="prefix", invoke="roundrobin"), {"match": "prefix", "invoke": "roundrobin"}),
            "B": (None, None),
            "C": (T.RegisterOptions(invoke="last"), {"invoke": "last"})}
    for names in itertools.permutations("ABC"):
        for call_opts, call_exp in ((None, {}), (T.RegisterOptions(invoke="first"), {"invoke": "first"})):
            ns = {}
            for i, n in enumerate(names):
                # methods are registered in alphabetical order of their names
                meth = "m%d_%s" % (i, n)
                fn = (lambda self, *a_, **k_: None)
                fn = wamp.register("com.flat2.%s" % n.lower(), options=deco[n][0])(fn) if deco[n][0] is not None \
                    else wamp.register("com.flat2.%s" % n.lower())(fn)
                ns[meth] = fn
            obj = type("Svc", (object,), ns)()
            l1 = H.L1().join()
            n0 = len(l1.transport.sent)
            r = l1.api(l1.session.register, obj, options=call_opts)
            l1.settle()
            evals += 1
            stats["flat2_decorated_register"] += 1
            sent = [R.norm_wire(w_) for w_ in l1.wire(n0)]
            got = {w_[3]: w_[2] for w_ in sent if w_[0] == R.REGISTER}
            want = {"com.flat2.%s" % n.lower(): (deco[n][1] if deco[n][1] is not None else call_exp) for n in names}
            if r[0] == "raise":
                bad("api-raised", "register(obj) raised %s" % H.exc_brief(r[1]))
            elif got != want:
                bad("request-wire", "register(obj) with methods %s, call options %r: REGISTER options %r expected %r" % (
                    list(names), call_exp, got, want))
    sdeco = {"A": (T.SubscribeOptions(match="prefix"), {"match": "prefix"}), "B": (None, None),
             "C": (T.SubscribeOptions(match="wildcard", get_retained=True), {"match": "wildcard", "get_retained": True})}
    for names in itertools.permutations("ABC"):
        for call_opts, call_exp in ((None, {}), (T.SubscribeOptions(get_retained=True), {"get_retained": True})):
            ns = {}
            for i, n in enumerate(names):
                fn = (lambda self, *a_, **k_: None)
                fn = wamp.subscribe("com.flat2.t%s" % n.lower(), options=sdeco[n][0])(fn) if sdeco[n][0] is not None \
                    else wamp.subscribe("com.flat2.t%s" % n.lower())(fn)
                ns["h%d_%s" % (i, n)] = fn
            obj = type("Obs", (object,), ns)()
            l1 = H.L1().join()
            n0 = len(l1.transport.sent)
            r = l1.api(l1.session.subscribe, obj, options=call_opts)
            l1.settle()
            evals += 1
            stats["flat2_decorated_subscribe"] += 1
            sent = [R.norm_wire(w_) for w_ in l1.wire(n0)]
            got = {w_[3]: w_[2] for w_ in sent if w_[0] == R.SUBSCRIBE}
            want = {"com.flat2.t%s" % n.lower(): (sdeco[n][1] if sdeco[n][1] is not None else call_exp) for n in names}
            if r[0] == "raise":
                bad("api-raised", "subscribe(obj) raised %s" % H.exc_brief(r[1]))
            elif got != want:
                bad("request-wire", "subscribe(obj) with handlers %s, call options %r: SUBSCRIBE options %r expected %r" % (
                    list(names), call_exp, got, want))
    # ---- (2) options next to an encrypted payload
    try:
        from autobahn.wamp.cryptobox import KeyRing
        import base64
        key = base64.b64encode(bytes(range(32))).decode()
    except Exception:
        KeyRing = None
    if KeyRing is not None:
        cases = [("publish", T.PublishOptions(acknowledge=True), {"acknowledge": True}),
                 ("publish", T.PublishOptions(acknowledge=True, exclude_me=False, retain=True, eligible=[7]),
                  {"acknowledge": True, "exclude_me": False, "retain": True, "eligible": [7]}),
                 ("publish", None, {}),
                 ("call", T.CallOptions(timeout=9), {"timeout": 9}),
                 ("call", T.CallOptions(on_progress=lambda *a_, **k_: None, timeout=3), {"receive_progress": True, "timeout": 3}),
                 ("call", None, {})]
        for kind, opts, exp in cases:
            for args, kwargs in (((), {}), ((1, "two"), {"k": [3]})):
                l1 = H.L1().join()
                l1.session.set_payload_codec(KeyRing(key))
                n0 = len(l1.transport.sent)
                kw = dict(kwargs)
                if opts is not None:
                    kw["options"] = opts
                uri = "com.flat2.enc.%s" % kind
                r = l1.api(getattr(l1.session, kind), uri, *args, **kw)
                l1.settle()
                evals += 1
                stats["flat2_encrypted_with_options"] += 1
                sent = [R.norm_wire(w_) for w_ in l1.wire(n0)]
                if r[0] == "raise":
                    bad("api-raised", "%s() with a payload codec raised %s" % (kind, H.exc_brief(r[1])))
                    continue
                if r[1] is not None:
                    l1.track("x", r[1])
                if len(sent) != 1:
                    bad("request-count", "%s with codec sent %r" % (kind, sent))
                    continue
                o = dict(sent[0][2])
                enc = {k_: o.pop(k_) for k_ in list(o) if k_.startswith("enc_")}
                if o != exp or sent[0][3] != uri:
                    bad("request-wire", "%s(%s) with a payload codec: options %r expected %r (+ enc_*)" % (
                        kind, uri, o, exp))
                if enc.get("enc_algo") != "cryptobox" or not isinstance(sent[0][4] if len(sent[0]) > 4 else None, bytes):
                    bad("request-wire", "%s with a payload codec not encrypted: %r" % (kind, sent[0][:4]))
                if kind == "publish" and exp.get("acknowledge") and l1.fstate("x")[0] != "pending":
                    bad("request-future", "acknowledged publish not pending: %r" % (l1.fbrief("x"),))
    # ---- (3) a request issued from the completion callback of another request: unsubscribe() /
    # unregister() called at once from the callback of subscribe() / register() (Twisted runs it
    # inside the processing of SUBSCRIBED / REGISTERED) sends exactly one request and returns a
    # pending result
    from autobahn.wamp import message as M
    for kind in ("subscribe", "register"):
        l1 = H.L1().join()
        s = l1.session
        inner = []
        if kind == "subscribe":
            r = l1.api(s.subscribe, lambda *a_, **k_: None, "com.flat2.cb.topic")
        else:
            r = l1.api(s.register, lambda *a_, **k_: None, "com.flat2.cb.proc")
        fut = r[1]

        def cb(obj, _inner=inner, _l1=l1, _kind=kind):
            n0 = len(_l1.transport.sent)
            rr = _l1.api(obj.unsubscribe if _kind == "subscribe" else obj.unregister)
            if rr[0] == "ok" and rr[1] is not None:
                _l1.track("inner", rr[1])
            _inner.append((rr[0], rr[1] if rr[0] == "raise" else None, [R.norm_wire(w_) for w_ in _l1.wire(n0)]))
            return obj
        if l1.fw == "tx":
            fut.addCallback(cb)
        else:
            fut.add_done_callback(lambda f, _cb=cb: _cb(f.result()))
        l1.settle()
        req = l1.transport.sent[-1].request
        exc = l1.deliver(M.Subscribed(req, 4711) if kind == "subscribe" else M.Registered(req, 4711))
        l1.settle()
        evals += 1
        stats["flat2_request_from_callback"] += 1
        want_code = R.UNSUBSCRIBE if kind == "subscribe" else R.UNREGISTER
        if exc is not None:
            bad("escape", "%s + un%s() in its callback: reply raised %s" % (kind, kind, H.exc_brief(exc)))
        elif len(inner) != 1:
            bad("callback-not-run", "%s: callback ran %d times" % (kind, len(inner)))
        elif inner[0][0] == "raise":
            bad("api-raised", "un%s() called from the callback of %s() raised %s" % (kind, kind, H.exc_brief(inner[0][1])))
        elif len(inner[0][2]) != 1 or inner[0][2][0][0] != want_code or inner[0][2][0][2] != 4711:
            bad("request-wire", "un%s() from the callback of %s(): sent %r" % (kind, kind, inner[0][2]))
        elif "inner" not in l1.futs or l1.fstate("inner")[0] != "pending":
            bad("request-future", "un%s() from the callback: result %r" % (kind, l1.fbrief("inner") if "inner" in l1.futs else None))
    # ---- (4) a pending call cancelled by the application (its Deferred / Future is cancelled): the
    # session sends CANCEL; whatever the router then answers for that request - ERROR
    # wamp.error.canceled, a RESULT that raced the CANCEL, a progressive RESULT followed by the ERROR,
    # or nothing - is the reply to THAT request, not a protocol violation; the next call is unaffected
    from autobahn.wamp import message as M
    for answer in ("error-canceled", "result-raced", "progress-then-error", "nothing", "error-twice"):
        for _once in (None,):
            l1 = H.L1().join()
            s = l1.session
            prog = []
            kw = {}
            if answer == "progress-then-error":
                kw["options"] = T.CallOptions(on_progress=lambda *a_, **k_: prog.append(a_))
            d = s.call("com.cancel.p", 1, **kw)
            l1.track("c", d)
            l1.settle()
            req = [m for m in l1.transport.sent if isinstance(m, M.Call)][-1].request
            try:
                d.cancel()
            except Exception as e:
                bad("api-raised", "cancelling a pending call raised %r" % (e,))
            l1.settle()
            evals += 1
            stats["cancelled_call_cases"] += 1
            cancels = [m for m in l1.transport.sent if isinstance(m, M.Cancel)]
            if len(cancels) != 1 or cancels[0].request != req:
                bad("request-wire", "cancelled call %d: CANCEL messages sent %r" % (req, [c.request for c in cancels]))
                continue
            msgs = {"error-canceled": [M.Error(M.Call.MESSAGE_TYPE, req, "wamp.error.canceled")],
                    "result-raced": [M.Result(req, args=[1])],
                    "progress-then-error": [M.Result(req, args=[0], progress=True),
                                            M.Error(M.Call.MESSAGE_TYPE, req, "wamp.error.canceled")],
                    "nothing": [],
                    "error-twice": [M.Error(M.Call.MESSAGE_TYPE, req, "wamp.error.canceled")]}[answer]
            for m in msgs:
                exc = l1.deliver(m)
                if exc is not None:
                    bad("reply-to-cancelled-call-rejected", "%s for the cancelled call %d raised %s" % (
                        type(m).__name__, req, H.exc_brief(exc)))
            if prog:
                # (a progressive result that raced the CANCEL is still handed to on_progress: allowed)
                stats["progress_after_cancel_delivered"] += 1
            if l1.fstate("c")[0] == "ok":
                bad("cancelled-call-succeeded", "the cancelled call completed successfully: %s" % (l1.fbrief("c"),))
            # the next call of the session is answered normally
            d2 = s.call("com.cancel.q", 2)
            l1.track("c2", d2)
            l1.settle()
            req2 = [m for m in l1.transport.sent if isinstance(m, M.Call)][-1].request
            exc = l1.deliver(M.Result(req2, args=["second"]))
            if exc is not None or l1.fstate("c2")[:2] != ("ok", "second") and l1.fstate("c2")[0] != "ok":
                bad("call-after-cancel", "call after a cancelled one: raised %r, state %s" % (exc, l1.fbrief("c2")))
    # ---- (5) the application gives up on a request of ANY kind (cancels the Deferred / Future, e.g.
    # asyncio.wait_for timing out) and the router's reply - success or ERROR - arrives afterwards:
    # it is the reply to that request, completes nothing a second time, raises nothing, and the next
    # request of the session is served normally
    def issue(l1_, kind_):
        s_ = l1_.session
        if kind_ == "publish":
            return s_.publish("com.giveup.t", 1, options=T.PublishOptions(acknowledge=True))
        if kind_ == "subscribe":
            return s_.subscribe(lambda *a_, **k_: None, "com.giveup.t")
        if kind_ == "register":
            return s_.register(lambda *a_, **k_: None, "com.giveup.p")
        raise ValueError(kind_)
    reqcls = {"publish": M.Publish, "subscribe": M.Subscribe, "register": M.Register,
              "unsubscribe": M.Unsubscribe, "unregister": M.Unregister}
    okreply = {"publish": lambda r_: M.Published(r_, 77001), "subscribe": lambda r_: M.Subscribed(r_, 77002),
               "register": lambda r_: M.Registered(r_, 77003), "unsubscribe": lambda r_: M.Unsubscribed(r_),
               "unregister": lambda r_: M.Unregistered(r_)}
    for kind in ("publish", "subscribe", "register", "unsubscribe", "unregister"):
        for reply in ("ok", "error"):
            l1 = H.L1().join()
            s = l1.session
            if kind in ("unsubscribe", "unregister"):
                base_kind = "subscribe" if kind == "unsubscribe" else "register"
                d0 = issue(l1, base_kind)
                l1.track("base", d0)
                l1.settle()
                req0 = [m for m in l1.transport.sent if isinstance(m, reqcls[base_kind])][-1].request
                l1.deliver(okreply[base_kind](req0))
                l1.settle()
                st0 = l1.fstate("base")
                if st0[0] != "ok":
                    bad("request-future", "%s did not complete: %r" % (base_kind, l1.fbrief("base")))
                    continue
                obj = st0[1]
                d = obj.unsubscribe() if kind == "unsubscribe" else obj.unregister()
            else:
                d = issue(l1, kind)
            l1.track("g", d)
            l1.settle()
            req = [m for m in l1.transport.sent if isinstance(m, reqcls[kind])][-1].request
            try:
                d.cancel()
            except Exception as e:
                bad("api-raised", "cancelling a pending %s raised %r" % (kind, e))
            l1.settle()
            m = okreply[kind](req) if reply == "ok" else M.Error(reqcls[kind].MESSAGE_TYPE, req, "wamp.error.not_authorized")
            exc = l1.deliver(m)
            l1.settle()
            evals += 1
            stats["given_up_request_cases"] += 1
            if exc is not None:
                bad("reply-to-given-up-request-rejected", "%s whose result the application cancelled: the late %s "
                    "raised %s" % (kind, type(m).__name__, H.exc_brief(exc)))
            loop_errors = list(getattr(getattr(l1, "loop", None), "errors", []) or [])
            if loop_errors:
                bad("escape", "%s given up, late %s: %r" % (kind, type(m).__name__, [
                    repr(c.get("exception") or c.get("message"))[:120] for c in loop_errors[:1]]))
            d2 = s.call("com.giveup.next", 2)
            l1.track("n", d2)
            l1.settle()
            req2 = [m_ for m_ in l1.transport.sent if isinstance(m_, M.Call)][-1].request
            exc = l1.deliver(M.Result(req2, args=["next"]))
            if exc is not None or l1.fstate("n")[0] != "ok":
                bad("call-after-given-up-request", "call after a given-up %s: raised %r, state %s" % (
                    kind, exc, l1.fbrief("n")))
    # ---- (5b) the transport refuses the request message (too long for the peer, not serializable,
    # transport just lost): the API call fails (raises or returns a failed result), and NOTHING stays
    # pending - a reply bearing the id the refused request would have had matches no pending
    # request (protocol violation); the next request is served normally
    from autobahn.wamp.exception import SerializationError, TransportLost, ProtocolError
    from autobahn.exception import PayloadExceededError
    for kind in ("call", "publish", "subscribe", "register"):
        for exc_cls in (PayloadExceededError, SerializationError, TransportLost):
            l1 = H.L1().join()
            s = l1.session
            warm = s.call("com.refused.warmup", 0)       # so that the refused request is not the first id
            l1.track("w", warm)
            l1.settle()
            next_id = l1.transport.sent[-1].request + 1
            l1.transport.fail_send = exc_cls("transport refuses this message")
            n0 = len(l1.transport.sent)
            if kind == "call":
                r = l1.api(s.call, "com.refused.p", 1)
            else:
                r = l1.api(issue, l1, kind)
            l1.settle()
            evals += 1
            stats["refused_send_cases"] += 1
            failed = r[0] == "raise"
            if r[0] == "ok" and r[1] is not None:
                l1.track("r", r[1])
                failed = l1.fstate("r")[0] == "err"
            if not failed:
                bad("refused-request-not-failed", "%s whose message the transport refused (%s): the API returned %s" % (
                    kind, exc_cls.__name__, l1.fbrief("r") if "r" in l1.futs else r[0]))
            if len(l1.transport.sent) != n0:
                bad("request-wire", "%s refused by the transport, yet %d messages recorded" % (kind, len(l1.transport.sent) - n0))
            rep = {"call": M.Result(next_id, args=["ghost"]), "publish": M.Published(next_id, 9),
                   "subscribe": M.Subscribed(next_id, 9), "register": M.Registered(next_id, 9)}[kind]
            exc = l1.deliver(rep)
            l1.settle()
            if exc is None or not isinstance(exc, ProtocolError):
                bad("reply-for-refused-request-accepted", "%s refused by the transport (%s); a %s bearing the id it "
                    "would have had (%d) was %s" % (kind, exc_cls.__name__, type(rep).__name__, next_id,
                                                      "accepted silently" if exc is None else "answered with %s" % H.exc_brief(exc)))
    # ---- (6) progressive results while a payload codec is active: decodable chunks reach on_progress
    # decoded; a chunk the codec cannot decode is not the reply that completes the call - the call
    # stays pending and completes with the final RESULT (which is no protocol violation)
    from props.c10 import JsonEnvelopeCodec
    for chunks in (["good"], ["bad"], ["good", "bad", "good"], ["bad", "bad"], ["mismatch"]):
        for final in ("encoded", "error"):
            l1 = H.L1().join()
            s = l1.session
            s.set_payload_codec(JsonEnvelopeCodec())
            prog = []
            d = s.call("com.codec.p", 1, options=T.CallOptions(on_progress=lambda *a_, **k_: prog.append((a_, k_))))
            l1.track("c", d)
            l1.settle()
            req = [m for m in l1.transport.sent if isinstance(m, M.Call)][-1].request
            want_prog = []
            problems = []
            for i, ch in enumerate(chunks):
                enc = JsonEnvelopeCodec().encode(False, "com.codec.p" if ch != "mismatch" else "com.codec.other",
                                                 [i, "chunk"], {"n": i})
                payload = enc.payload if ch != "bad" else b"\xff{ not what the codec wrote"
                exc = l1.deliver(M.Result(req, payload=payload, progress=True, enc_algo=enc.enc_algo,
                                          enc_serializer=enc.enc_serializer))
                l1.settle()
                if ch == "good":
                    want_prog.append(((i, "chunk"), {"n": i}))
                if exc is not None:
                    problems.append("progressive RESULT #%d (%s) raised %s" % (i, ch, H.exc_brief(exc)))
                if l1.fstate("c")[0] != "pending":
                    problems.append("progressive RESULT #%d (%s) completed the call: %s" % (i, ch, l1.fbrief("c")))
                    break
            if not problems:
                if final == "encoded":
                    enc = JsonEnvelopeCodec().encode(False, "com.codec.p", ["final"], None)
                    fm = M.Result(req, payload=enc.payload, enc_algo=enc.enc_algo, enc_serializer=enc.enc_serializer)
                else:
                    fm = M.Error(M.Call.MESSAGE_TYPE, req, "com.codec.failed", args=["f"])
                exc = l1.deliver(fm)
                l1.settle()
                st = l1.fstate("c")
                if exc is not None:
                    problems.append("the final %s raised %s" % (type(fm).__name__, H.exc_brief(exc)))
                elif final == "encoded" and st[0] != "ok":
                    problems.append("call not completed by its final RESULT: %s" % (l1.fbrief("c"),))
                elif final == "error" and st[0] != "err":
                    problems.append("call not failed by its ERROR: %s" % (l1.fbrief("c"),))
            got_prog = [(tuple(a_), dict(k_)) for a_, k_ in prog]
            if got_prog != want_prog:
                problems.append("on_progress got %r expected %r" % (got_prog, want_prog))
            evals += 1
            stats["codec_progressive_cases"] += 1
            for pr in problems[:2]:
                bad("codec-progressive", "payload codec active, call with on_progress, chunks %s then final %s: %s" % (
                    chunks, final, pr))
    return {"evals": evals, "viol": viol, "stats": dict(stats, flat_execs=evals, transitions=evals),
            "samples": [{"kind": "flat2", "cases": evals}]}


def replay(a):
    if a.get("kind") == "flat2":
        from mc import worker as _w
        r_ = _job_flat2(a, _w.ENV, int(_w.ENV.get("seed", 0)))
        return {"viol": r_["viol"], "stats": r_["stats"]}
    """re-execute one history on the real code, checking every event, without the explorer"""
    from mc import worker
    from harness import wamp_l1 as H
    seed = int(worker.ENV.get("seed", 0))
    w = World(a.get("idseed", 0), seed)
    trace = []
    for ev in a["history"]:
        nv = len(w.viol)
        n0 = len(w.l1.transport.sent)
        w.apply(ev, check=True)
        trace.append({"event": ev, "sent": w.l1.wire(n0),
                      "futures": {k: w.l1.fbrief(k) for k in w.l1.futs},
                      "problems": [list(x) for x in w.viol[nv:]]})
    return {"autobahn": H.where(), "trace": trace,
            "viol": [{"sig": "C04|%s|%s|%s" % (v[0], v[1], v[2]), "desc": v[3]} for v in w.viol]}


MANIFEST = {
    "text": "Explicit-state BFS over histories of API calls (call plain / on_progress / details / both, "
            "publish acknowledged or not, subscribe, register, unsubscribe, unregister) and router "
            "messages (per pending request: success reply, ERROR, progressive RESULT with five payload "
            "shapes; duplicates of delivered replies; replies with the right id but every other reply "
            "type or ERROR request type; unknown ids; interleaved EVENT / INVOCATION) on a real "
            "ApplicationSession of each framework over a scripted transport, <= 3 requests outstanding, "
            "depth 6 (quick) / 8 (thorough), plus the same with the id generator seeded at 2^53-2 and a "
            "flat sweep of API kind x option set x payload shape. Every transition is judged by an "
            "independent request-table model: one request message with the next sequential id and "
            "verbatim URI/args/kwargs/options, the addressed future completes exactly once with its "
            "own reply content, no other future changes, progressive results reach only their own "
            "handler, unmatched replies raise ProtocolError and leave the state digest unchanged."
            " Also: requests of every kind the application gave up on (cancelled result) x late replies, progressive results under a payload codec (decodable / undecodable / URI-mismatching chunks never complete the call), exception classes define()d on one session never surfacing in another session."
            " Also: requests whose message the transport refuses (nothing stays pending; found C04-F3) and every Register / Subscribe option alone.",
    "note": "Trusted: ref/wamp_session.py, harness/wamp_l1.py (scripted ITransport), the message "
            "classes' marshal() for reading the sent messages. Payload values are representatives; "
            "states are merged on a snapshot that omits completed futures' contents (checked at "
            "completion time).",
    "technique": "explicit-state BFS over API/router event histories on the real session against a "
                 "reference request-table model (sharded by API-kind prefix)",
}
