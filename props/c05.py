"""
C05 - WebSocket connections close exactly once, in order, and in bounded time.

Explicit-state BFS over event histories on ONE real endpoint (both roles, Twisted and asyncio
flavours) under a virtual clock.  A state is the event history reaching it; every transition
re-builds a fresh real endpoint, replays the history and applies one more event from the menu
{local sendClose variants, local send/ping, peer close valid/empty/invalid, peer data/ping/
violation, clock to next deadline, clock +0.25 s, peer TCP drop (clean/reset), delivery of our own
drop, (asyncio) peer octets queued but not yet processed / process queue}.  States are merged by
a canonical snapshot of the protocol object + transport + timers + a bounded abstraction of the
logs.  Monitors run on every transition; from every new state in which closing has begun a side
run with a silent peer checks the bounded-time clause.
"""
LEVEL = "model_checking"
RULE = ("states = distinct canonical snapshots of the real endpoint reached by BFS over event "
        "histories (per configuration); transitions = (state, event) pairs executed on a fresh real "
        "endpoint by replaying the history; non-trivial = state at depth >= 1")
ASSUMPTIONS = [
    "event histories up to the stated depth (quick 4-5, thorough 6-7) from OPEN and from CONNECTING",
    "one representative payload per event kind; timeouts from {1, 2.5} s; clock moves to pending "
    "deadlines or by 0.25 s",
    "merged states agree on every protocol attribute, buffered octets, timers (relative), transport "
    "flags and on the log abstraction the monitors read (close frames written 0/1/2+, data after "
    "close, onClose count, callbacks/writes after onClose)",
]

import struct

S_CLOSED, S_CONNECTING, S_CLOSING, S_OPEN = 0, 1, 2, 3
REFUSED_HS = {"server": ["version12", "nohost", "shortkey"],
              "client": ["subprotocol", "extension", "accept", "status200"]}
RANK = {S_CONNECTING: 0, 4: 0, S_OPEN: 1, S_CLOSING: 2, S_CLOSED: 3}

LONG_REASON = "x" + ("€" * 60)    # 1+180 octets: octet 123 falls inside a 3-octet code point


def configs(tier):
    out = []
    for role in ("server", "client"):
        for fbd in (False, True):
            for echo in (False, True):
                for cht in (1, 2.5, 0):
                    for sdt in ((1, 0) if role == "client" else (1,)):
                        if cht == 0 and sdt == 0:
                            continue
                        for start in ("open", "connecting"):
                            c = {"role": role, "failByDrop": fbd, "echo": echo, "cht": cht,
                                 "sdt": sdt, "start": start}
                            out.append(c)
    # applications sending with the frame-based streaming API
    for role in ("server", "client"):
        out.append({"role": role, "failByDrop": False, "echo": False, "cht": 1, "sdt": 1,
                    "start": "open", "stream": True})
    # automatic pings switched on
    for role in ("server", "client"):
        out.append({"role": role, "failByDrop": False, "echo": False, "cht": 1, "sdt": 1,
                    "start": "open", "ping": True})
    # options declared per connection (protocol class), the factory's differ
    for role in ("server", "client"):
        out.append({"role": role, "failByDrop": False, "echo": False, "cht": 1, "sdt": 1,
                    "start": "open", "via": "class"})
    # server whose onConnect answers asynchronously: the peer may be gone before the answer
    out.append({"role": "server", "failByDrop": False, "echo": False, "cht": 1, "sdt": 1,
                "start": "connecting", "dconn": True})
    if tier == "thorough":
        return out
    keep = []
    for c in out:
        if c["start"] == "connecting" and (c["echo"] or c["cht"] != 1 or c["sdt"] != 1):
            continue
        if c["cht"] == 2.5 and (c["echo"] or c["failByDrop"]):
            continue
        if c["cht"] == 0 and (c["echo"] or c["failByDrop"] or c["start"] != "open"):
            continue
        if c["sdt"] == 0 and (c["echo"] or c["failByDrop"] or c["cht"] != 1):
            continue
        keep.append(c)
    return keep


def main(ctx):
    tier = ctx.tier
    cfgs = configs(tier)
    for fw in ("tx", "aio"):
        jobs = []
        for c in cfgs:
            depth = (7 if c["start"] == "open" else 5) if tier == "thorough" else \
                (6 if c["start"] == "open" else 5)
            if fw == "aio":
                depth = depth - 1 if tier != "thorough" else depth
            if c.get("ping") and tier != "thorough":
                depth -= 1          # (larger event menu: keep the quick tier's longest job in bounds)
            jobs.append({"cfg": c, "depth": depth, "fw": fw, "tier": tier})
        # biggest first for better packing
        jobs.sort(key=lambda j: -j["depth"])
        ctx.pmap({"fw": fw, "nvx": "1"}, "props.c05:job", jobs)
        ctx.pmap({"fw": fw, "nvx": "1"}, "props.c05:job_reasons",
                 [{"role": r} for r in ("server", "client")])
        ctx.pmap({"fw": fw, "nvx": "1"}, "props.c05:job_codes",
                 [{"role": r, "echo": e, "fbd": f, "lo": lo, "hi": lo + 8192}
                  for r in ("server", "client") for e in (True, False) for f in (False, True)
                  for lo in range(0, 65536, 8192)
                  if tier == "thorough" or fw == "tx" or (e and not f)])
    ctx.coverage["states"] = int(ctx.counters["states"])
    ctx.coverage["transitions"] = int(ctx.counters["transitions"])
    ctx.coverage["traces_validated_against_impl"] = int(ctx.counters["transitions"])
    ctx.coverage["distinct_nontrivial"] = int(ctx.counters["states"])
    for n in ("states", "transitions", "bounded_time_runs", "reached:onclose_clean",
              "reached:onclose_unclean", "reached:close_timer_fired", "reached:peer_close_while_closing",
              "reached:closeframe_sent", "reached:own_drop_delivered", "reached:data_after_our_close_ignored",
              "reached:sendclose_while_closing", "reached:connecting_lost",
              "reached:deferred_onconnect_resolved_late", "reached:queued_write",
              "reached:frames_behind_peer_close", "reached:prepared_message", "reached:streaming_api",
              "reached:stream_ended_while_not_open", "reached:refused_handshake", "reached:auto_ping_answered", "local_close_code_cases", "reason_cases", "code_cases", "code_echoed", "code_rejected",
              "close_inside_open_text_message"):
        ctx.require(n)


# ---------------------------------------------------------------------------
# the system under exploration
# ---------------------------------------------------------------------------
class Sys:
    def __init__(self, cfg):
        from harness import ws
        from ref import ws_frames as F
        self.F = F
        self.cfg = cfg
        role = cfg["role"]
        opts = {"failByDrop": cfg["failByDrop"], "echoCloseCodeReason": cfg["echo"],
                "closeHandshakeTimeout": cfg["cht"], "openHandshakeTimeout": 5}
        if role == "client":
            opts["serverConnectionDropTimeout"] = cfg["sdt"]
        if cfg.get("ping"):
            # automatic pings (interval 1 s, pong expected within 1 s): one more timer family racing
            # with the close events, and a peer that answers the outstanding ping
            opts["autoPingInterval"] = 1
            opts["autoPingTimeout"] = 1
        self.connect_future = None   # server: onConnect answers asynchronously (cfg "dconn")
        self.connect_resolved = False
        hooks = None
        if cfg.get("dconn"):
            import txaio

            def connect(proto, request):
                self.connect_future = txaio.create_future()
                return self.connect_future
            hooks = {"connect": connect}
        if cfg.get("via") == "class":
            # the connection's own settings (protocol class attributes) differ from the factory's:
            # the factory has the timers disabled and the opposite failByDrop - the connection's count
            fopts = {"failByDrop": not cfg["failByDrop"], "closeHandshakeTimeout": 0, "openHandshakeTimeout": 5}
            if role == "client":
                fopts["serverConnectionDropTimeout"] = 0
            self.ep = ws.Endpoint(role, fopts, hooks=hooks, proto_class_attrs=opts)
        else:
            self.ep = ws.Endpoint(role, opts, hooks=hooks)
        self.conn = self.ep.conn
        self.proto = self.ep.proto
        self.t = self.ep.t
        self.mask = b"\x37\xfa\x21\x3d" if role == "server" else None
        self.api_errors = []
        self.state_trace = [self.proto.state]
        self.peer_close = None       # (code, reason_bytes) of the first VALID close frame fed
        self.peer_closes = []        # every VALID close frame fed (a misbehaving peer may send >1)
        self.first_peer_close_valid = None
        self.rec_len_at_first_valid_close = None
        self.peer_close_any = False
        self.fed_texts = []          # payloads of the text messages the peer has sent, in order
        self.hs_done_len = 0
        self.hs_fed = False
        self.hs_refused = False
        self.pongs_fed = 0
        self.deferred = False        # aio: octets queued, not yet processed
        self.notes = set()
        if cfg["start"] == "open":
            self._handshake()

    def _handshake(self):
        ep = self.ep
        if self.cfg["role"] == "server":
            ep.feed(ep.server_request())
        else:
            self.conn.settle()
            req = bytes(self.t.written)
            ep.feed(ep.client_response(req))
        self.hs_done_len = len(self.t.written)
        self.hs_fed = True

    # -- menu
    def enabled(self):
        p = self.proto
        ev = []
        lost = self.conn.lost
        reading = (not lost) and self.t.reading()
        if self.deferred:
            # asyncio: the adapter has queued the octets and its done-callback is already in the
            # loop's ready queue.  The real loop runs ready callbacks FIFO and polls I/O / timers
            # only afterwards, so the only events that can still come first are local API calls
            # made from callbacks that were queued earlier.
            ev.append("settle")
            if p.state in (S_OPEN, S_CLOSING, S_CLOSED) and self.hs_done_len:
                if self.cfg.get("stream"):
                    ev += ["sendClose", "sendPing"] + (["stream:frame", "stream:end"] if p.send_state == 2 else [])
                else:
                    ev += ["sendClose", "sendClose3000r", "sendMessage", "sendMessageSync", "sendPrepared",
                           "sendPing"]
            return ev
        if p.state in (S_OPEN, S_CLOSING, S_CLOSED) and self.hs_done_len:
            if self.cfg.get("stream"):
                # an application that sends with the frame-based streaming API (in place of the
                # message-level variants, to keep the branching factor)
                # (a message-level send while a streamed message is open is an application error)
                ev += ["sendClose", "sendClose3000r", "sendPing"] + (["sendMessage"] if p.send_state == 0 else [])
                if p.send_state == 0 and p.state == S_OPEN:
                    ev.append("stream:begin+frame")
                elif p.send_state == 2:
                    ev += ["stream:frame", "stream:end"]
            else:
                ev += ["sendClose", "sendClose1000", "sendClose3000r", "sendCloseLong", "sendMessage",
                       "sendMessageSync", "sendPrepared", "sendPing"]
        if reading:
            if p.state == S_CONNECTING and not self.hs_done_len and not self.hs_fed:
                ev += ["peer:handshake", "peer:garbage-handshake"]
                # well-formed handshakes the endpoint must refuse, alone and with a frame behind
                # them in the same read
                for k in REFUSED_HS[self.cfg["role"]]:
                    ev += ["refusedhs:" + k, "refusedhs+text:" + k]
            elif self.hs_done_len:
                ev += ["peer:close1000", "peer:closeEmpty", "peer:close1005", "peer:closeBadUtf8",
                       "peer:close1octet", "peer:text", "peer:ping", "peer:op3", "peer:closeThenMore"]
                if self.cfg.get("ping") and self._outstanding_ping() is not None:
                    ev.append("peer:pong")
                from mc import worker
                if worker.ENV.get("fw") == "aio" and not self.deferred:
                    ev += ["peerq:close1000", "peerq:text"]
        if self.connect_future is not None and not self.connect_resolved:
            ev.append("app:connect-ok")
        if self.conn.next_deadline() is not None:
            ev.append("clock:next")
        ev.append("clock:+0.25")
        if not lost:
            if self.conn.own_drop_pending():
                ev.append("own-drop")
            else:
                ev += ["peer:tcp-fin", "peer:tcp-rst"]
        return ev

    def _frame(self, name):
        F = self.F
        m = self.mask
        if name == "close1000":
            return F.encode(8, F.close_payload(1000, b"bye"), mask=m), (1000, b"bye")
        if name == "closeEmpty":
            return F.encode(8, b"", mask=m), (None, b"")
        if name == "close1005":
            return F.encode(8, F.close_payload(1005, b""), mask=m), None
        if name == "closeBadUtf8":
            return F.encode(8, F.close_payload(1000, b"\xff\xfe"), mask=m), None
        if name == "close1octet":
            return F.encode(8, b"\x03", mask=m), None
        if name == "closeThenMore":
            # one read: the peer's close frame, and behind it a data frame and another close frame
            return (F.encode(8, F.close_payload(1000, b"bye"), mask=m) + F.encode(1, b"late", mask=m) +
                    F.encode(8, F.close_payload(3001, b"second"), mask=m)), (1000, b"bye")
        if name == "text":
            return F.encode(1, b"hi", mask=m), None
        if name == "ping":
            return F.encode(9, b"pg", mask=m), None
        if name == "op3":
            return F.encode(3, b"x", mask=m), None
        if name == "pong":
            return F.encode(10, self._outstanding_ping() or b"", mask=m), None
        raise ValueError(name)

    def _outstanding_ping(self):
        """payload of the last ping this endpoint wrote that the peer has not answered yet"""
        pings = [f.payload for f in self.wire() if f.opcode == 9 and f.payload != b"lp"]
        if len(pings) > self.pongs_fed:
            return pings[-1]
        return None

    def step(self, ev):
        p = self.proto
        pre_written = len(self.t.written)
        try:
            if ev == "settle":
                self.conn.settle()
                self.deferred = False
            elif ev.startswith("sendClose"):
                if p.state == S_CLOSING:
                    self.notes.add("sendclose_while_closing")
                if ev == "sendClose":
                    p.sendClose()
                elif ev == "sendClose1000":
                    p.sendClose(1000)
                elif ev == "sendClose3000r":
                    p.sendClose(3000, "r")
                else:
                    p.sendClose(4999, LONG_REASON)
            elif ev in ("sendMessage", "sendMessageSync", "sendPrepared"):
                try:
                    if ev == "sendPrepared":
                        # the prepared-message (broadcast) API
                        p.sendPreparedMessage(p.factory.prepareMessage(b"pm", True))
                        self.notes.add("prepared_message")
                    elif ev == "sendMessageSync":
                        # queued write: goes out on a later reactor turn (a timer of the owned clock)
                        p.sendMessage(b"q", True, sync=True)
                        self.notes.add("queued_write")
                    else:
                        p.sendMessage(b"x", True)
                except Exception as e:
                    if type(e).__name__ != "Disconnected":
                        raise
                    if len(self.t.written) != pre_written:
                        self.api_errors.append("sendMessage raised Disconnected but wrote octets")
            elif ev.startswith("stream:"):
                self.notes.add("streaming_api")
                if ev == "stream:begin+frame":
                    p.beginMessage(True)
                    p.sendMessageFrame(b"part-1")
                elif ev == "stream:frame":
                    p.sendMessageFrame(b"part-n")
                else:
                    p.endMessage()
                    if p.state != S_OPEN:
                        self.notes.add("stream_ended_while_not_open")
            elif ev == "app:connect-ok":
                import txaio
                self.connect_resolved = True
                txaio.resolve(self.connect_future, None)
                self.conn.settle()
                if p.state == S_OPEN:
                    self.hs_done_len = len(self.t.written)
                self.notes.add("deferred_onconnect_resolved")
                if self.conn.lost or self.t.calls:
                    self.notes.add("deferred_onconnect_resolved_late")
            elif ev == "sendPing":
                p.sendPing(b"lp")
            elif ev == "peer:handshake":
                self._handshake()
            elif ev == "peer:garbage-handshake":
                self.ep.feed(b"GARBAGE / HTTP/1.1\r\n\r\n")
                self.hs_done_len = -1
            elif ev.startswith("refusedhs"):
                head, k = ev.split(":")
                octets = self._refused_handshake(k)
                if head.endswith("+text"):
                    octets += self._frame("text")[0]
                    self.fed_texts.append(b"hi")
                self.hs_refused = True
                self.hs_fed = True
                self.hs_done_len = -1
                self.notes.add("refused_handshake")
                self.ep.feed(octets)
            elif ev.startswith("peer:tcp"):
                self.conn.peer_drop(clean=ev.endswith("fin"))
            elif ev.startswith("peer:") or ev.startswith("peerq:"):
                name = ev.split(":")[1]
                octets, valid_close = self._frame(name)
                if p.state == S_CLOSING and name.startswith("close"):
                    self.notes.add("peer_close_while_closing")
                if p.state == S_CLOSING and name == "text" and p.closedByMe:
                    self.notes.add("data_after_our_close")
                if name == "closeThenMore":
                    self.notes.add("frames_behind_peer_close")
                if name == "pong":
                    self.pongs_fed = sum(1 for f in self.wire() if f.opcode == 9 and f.payload != b"lp")
                    self.notes.add("auto_ping_answered")
                if name in ("text", "closeThenMore"):
                    self.fed_texts.append(b"hi" if name == "text" else b"late")
                if name.startswith("close"):
                    if not self.peer_close_any:
                        self.first_peer_close_valid = valid_close is not None
                    self.peer_close_any = True
                    if valid_close is not None:
                        if not self.peer_closes:
                            self.rec_len_at_first_valid_close = len(self.proto.rec)
                        self.peer_closes.append(valid_close)
                        if self.peer_close is None:
                            self.peer_close = valid_close
                if ev.startswith("peerq:"):
                    self.conn.feed(octets, False)
                    self.deferred = True
                else:
                    self.ep.feed(octets)
            elif ev == "clock:next":
                dl = self.conn.next_deadline()
                self.conn.advance(max(0.0, dl - self.conn.now()) + 1e-9)
                self.notes.add("timer_fired")
            elif ev == "clock:+0.25":
                self.conn.advance(0.25)
            elif ev == "own-drop":
                self.conn.deliver_own_drop()
                self.conn.settle()
                self.notes.add("own_drop_delivered")
            else:
                raise ValueError(ev)
        except Exception as e:
            # an exception from a local API call is reported to the caller, not the framework
            self.api_errors.append("%s raised %r" % (ev, e))
        self.state_trace.append(self.proto.state)

    def _refused_handshake(self, k):
        ep = self.ep
        if self.cfg["role"] == "server":
            if k == "version12":
                return ep.server_request(version=b"12")
            if k == "nohost":
                return ep.server_request().replace(b"Host: localhost:9000\r\n", b"")
            if k == "shortkey":
                return ep.server_request(key=b"c2hvcnQ=")
            raise ValueError(k)
        self.conn.settle()
        req = bytes(self.t.written)
        if k == "subprotocol":
            return ep.client_response(req, extra=b"Sec-WebSocket-Protocol: not.requested\r\n")
        if k == "extension":
            return ep.client_response(req, extra=b"Sec-WebSocket-Extensions: x-unknown-ext\r\n")
        if k == "accept":
            return ep.client_response(req.replace(b"Sec-WebSocket-Key: ", b"Sec-WebSocket-Key: A"))
        if k == "status200":
            return ep.client_response(req).replace(b"101 Switching Protocols", b"200 OK")
        raise ValueError(k)

    def _peer_failed(self):
        # the peer already sent something invalid before: later closes are not "the peer's close"
        return False

    # -- observations
    def written_after_handshake(self):
        if self.hs_done_len <= 0:
            return b""
        return bytes(self.t.written[self.hs_done_len:])

    def wire(self):
        F = self.F
        frames, used = F.parse_frames(self.written_after_handshake())
        return frames

    def log_abstraction(self):
        rec = self.proto.rec
        names = [e[0] for e in rec]
        oc = [i for i, n in enumerate(names) if n == "onClose"]
        frames = self.wire()
        closes = [i for i, f in enumerate(frames) if f.opcode == 8]
        data_after = False
        ctrl_after = False
        if closes:
            for f in frames[closes[0] + 1:]:
                if f.opcode in (0, 1, 2):
                    data_after = True
                elif f.opcode in (9, 10):
                    ctrl_after = True
        return {
            "onclose": min(len(oc), 2),
            "cb_after_onclose": bool(oc) and len(names) > oc[0] + 1,
            "closes": min(len(closes), 2),
            "close_payload": frames[closes[0]].payload.hex() if closes else None,
            "data_after_close": data_after,
            "ctrl_after_close": ctrl_after,
            "opened": "onOpen" in names,
            "msgs": min(names.count("onMessage"), 2),
            "peer_close": None if self.peer_close is None else
            (self.peer_close[0], self.peer_close[1].hex()),
            "peer_close_any": self.peer_close_any,
            "first_valid": self.first_peer_close_valid,
        }

    def canon(self):
        p = self.proto
        attrs = {}
        for k in ("state", "send_state", "closedByMe", "failedByMe", "droppedByMe", "wasClean",
                  "wasNotCleanReason", "wasServerConnectionDropTimeout", "wasOpenHandshakeTimeout",
                  "wasCloseHandshakeTimeout", "localCloseCode", "localCloseReason",
                  "remoteCloseCode", "remoteCloseReason", "inside_message", "triggered"):
            attrs[k] = getattr(p, k, "<unset>")
        attrs["current_frame"] = getattr(p, "current_frame", None) is not None
        attrs["data"] = bytes(getattr(p, "data", b"") or b"")
        attrs["send_queue"] = len(getattr(p, "send_queue", ()) or ())
        for k in ("closeHandshakeTimeoutCall", "openHandshakeTimeoutCall",
                  "serverConnectionDropTimeoutCall", "autoPingTimeoutCall", "autoPingPendingCall"):
            attrs[k] = getattr(p, k, None) is not None
        import txaio
        attrs["is_closed"] = bool(txaio.is_called(p.is_closed)) if hasattr(p, "is_closed") else None
        tr = {"disconnecting": bool(self.t.disconnecting), "aborted": bool(self.t.aborted),
              "lost": bool(self.conn.lost), "calls": list(self.t.calls),
              "proto_transport_none": getattr(p, "transport", 1) is None}
        return {"attrs": attrs, "tr": tr, "timers": self.conn.pending_timers(),
                "frac": round(self.conn.now() % 1.0, 3), "log": self.log_abstraction(),
                "deferred": self.deferred, "hs": self.hs_done_len > 0, "hs_refused": self.hs_refused, "pongs_fed": self.pongs_fed,
                "dconn": (self.connect_future is not None, self.connect_resolved),
                "escapes": len(self.conn.escapes), "api_errors": len(self.api_errors)}


def build(cfg, history):
    s = Sys(cfg)
    for ev in history:
        s.step(ev)
    return s


# ---------------------------------------------------------------------------
# monitors
# ---------------------------------------------------------------------------
def monitors(s, ev):
    """-> list of (clause, detail) violated by the system after its last step"""
    F = s.F
    bad = []
    p = s.proto
    # M1 forward only
    tr = s.state_trace
    if len(tr) >= 2 and RANK.get(tr[-1], -1) < RANK.get(tr[-2], -1):
        bad.append(("state-went-backwards", "%s -> %s on %s" % (tr[-2], tr[-1], ev)))
    rec = p.rec
    names = [e[0] for e in rec]
    oc = [i for i, n in enumerate(names) if n == "onClose"]
    # M2 onClose once, after the transport is gone, nothing after it
    if len(oc) > 1:
        bad.append(("onclose-twice", str([rec[i] for i in oc])))
    if oc:
        if not s.conn.lost:
            bad.append(("onclose-before-transport-gone", str(rec[oc[0]])))
        if len(names) > oc[0] + 1:
            bad.append(("callback-after-onclose", str(names[oc[0] + 1:])))
    if s.conn.lost and s.hs_done_len > 0 and not oc and "onOpen" in names:
        bad.append(("no-onclose-after-transport-loss", "rec=%s" % names))
    if s.conn.lost and p.state != S_CLOSED:
        bad.append(("not-closed-after-transport-loss", "state=%s" % p.state))
    # writes after the transport is gone / after onClose
    if s.t.dropped_after_abort and s.conn.lost:
        pass  # discarded by the transport; counted below only if after onClose
    # M3/M4 close frame discipline on the wire
    frames = s.wire()
    closes = [i for i, f in enumerate(frames) if f.opcode == 8]
    if len(closes) > 1:
        bad.append(("two-close-frames", str([frames[i].payload.hex() for i in closes])))
    if closes:
        for f in frames[closes[0] + 1:]:
            if f.opcode in (0, 1, 2):
                bad.append(("data-frame-after-close", f.brief().__repr__()))
                break
        pl = frames[closes[0]].payload
        if len(pl) == 1:
            bad.append(("close-payload-1-octet", pl.hex()))
        if len(pl) >= 2:
            code = struct.unpack("!H", pl[:2])[0]
            if not F.close_code_wire_legal(code):
                bad.append(("close-code-not-wire-legal", str(code)))
            reason = pl[2:]
            if len(reason) > 123:
                bad.append(("close-reason-too-long", str(len(reason))))
            try:
                reason.decode("utf8")
            except UnicodeDecodeError:
                bad.append(("close-reason-not-utf8", reason.hex()))
    errs, _, _, _ = F.check_sender_stream(s.written_after_handshake(), s.cfg["role"] == "client",
                                          complete=False)
    if errs:
        bad.append(("wire-malformed", errs[0]))
    # M5 clean close
    if oc:
        _, was_clean, code, reason = rec[oc[0]]
        if was_clean:
            if not closes or not s.peer_close_any:
                bad.append(("clean-without-both-close-frames",
                            "closes_sent=%d peer_close_fed=%s" % (len(closes), s.peer_close_any)))
            elif s.peer_closes and s.first_peer_close_valid:
                # the peer's close frame is its FIRST one (anything after it is discarded,
                # RFC 6455 1.4).  If that first close frame was itself invalid the connection was
                # failed and what is reported is not judged.
                if not (code == s.peer_closes[0][0] and (reason or "") == s.peer_closes[0][1].decode("utf8")):
                    bad.append(("clean-close-reports-wrong-code-reason",
                                "reported (%r,%r) peer sent %r" % (code, reason, s.peer_closes)))
        else:
            if code != 1006:
                bad.append(("unclean-close-code", str(code)))
    # M5b nothing is delivered that arrived after the peer's (valid, first) close frame
    if s.rec_len_at_first_valid_close is not None and s.first_peer_close_valid:
        late = [e[0] for e in rec[s.rec_len_at_first_valid_close:] if e[0] in ("onMessage", "onPing", "onPong")]
        if late:
            bad.append(("delivery-after-peer-close-frame", str(late)))
    # M5d a refused opening handshake never opens the connection
    if s.hs_refused:
        if p.state in (S_OPEN, S_CLOSING) or any(n in names for n in ("onOpen", "onMessage", "onPing")):
            bad.append(("open-after-refused-handshake", "state=%s callbacks=%s" % (p.state, names)))
    # M5c whatever is delivered is what the peer sent: each delivered message is one of the peer's
    # messages, intact, in order (also while closing)
    got = [bytes(e[1]) for e in rec if e[0] == "onMessage"]
    it = iter(s.fed_texts)
    if not all(any(g == f for f in it) for g in got):
        bad.append(("delivered-message-altered", "delivered %r, the peer sent %r" % (got, s.fed_texts)))
    # M6 is_closed
    import txaio
    if p.state == S_CLOSED and hasattr(p, "is_closed") and not txaio.is_called(p.is_closed):
        bad.append(("is_closed-not-resolved", ""))
    if p.state != S_CLOSED and hasattr(p, "is_closed") and txaio.is_called(p.is_closed):
        bad.append(("is_closed-resolved-early", "state=%s" % p.state))
    # M8 nothing escapes to the framework
    if s.conn.escapes:
        bad.append(("escape", repr(s.conn.escapes[0])[:160]))
    for e in s.api_errors:
        if "sendClose" in e and s.proto.state in (S_CONNECTING,):
            continue
        bad.append(("api-error", e[:160]))
    return bad


def closing_begun(s):
    return s.hs_done_len > 0 and (s.proto.state in (S_CLOSING, S_CLOSED) or bool(s.t.calls))


def bounded_time(cfg, history, stalled=False):
    """side run: silent peer, clock advanced by the configured close + drop timeouts (+1 s timer
    granularity): the transport must have been dropped; delivering the drop fires onClose once"""
    s = build(cfg, history)
    if s.deferred:
        s.step("settle")
    if cfg["role"] == "client" and cfg["sdt"] == 0 and s.peer_close_any and not s.conn.lost \
            and not s.conn.own_drop_pending():
        # serverConnectionDropTimeout=0 disables the drop timer by configuration: a client that
        # has the peer's close frame legitimately waits for the server without bound
        return [], s
    if cfg["cht"] == 0 and not s.peer_close_any and not s.conn.lost and not s.conn.own_drop_pending():
        # closeHandshakeTimeout=0 disables that timer by configuration: an endpoint that has sent
        # its close frame legitimately waits for the peer's without bound
        return [], s
    budget = cfg["cht"] + (cfg["sdt"] if cfg["role"] == "client" else 0) + 1.0
    if stalled:
        if s.conn.lost or s.conn.own_drop_pending() or s.t.disconnecting:
            return [], s
        # the silent peer has also stopped READING: our write buffer does not drain, so only an
        # abort of the transport gets rid of the connection (a graceful close waits for the flush)
        s.t.stalled = True
        s.t.unsent = max(1, s.t.unsent)
    if not s.conn.lost and not s.conn.own_drop_pending():
        s.conn.advance(budget + 1e-6)
    bad = []
    if not s.conn.lost and not s.conn.own_drop_pending():
        bad.append(("not-closed-within-timeouts",
                    "state=%s after %.2fs of silence; timers=%s" % (
                        s.proto.state, budget, s.conn.pending_timers())))
        return bad, s
    if not s.conn.lost:
        s.step("own-drop")
    # long silence afterwards: no timer may have any effect
    w = len(s.t.written)
    n = len(s.proto.rec)
    s.conn.advance(30.0)
    if len(s.t.written) != w or len(s.proto.rec) != n:
        bad.append(("effect-after-closed", "rec=%s" % s.proto.rec[n:]))
    bad += monitors(s, "bounded-time")
    names = [e[0] for e in s.proto.rec]
    if "onOpen" in names and names.count("onClose") != 1:
        bad.append(("onclose-count-after-drop", str(names)))
    return bad, s


def job(a):
    from mc import worker
    from mc.core import digest
    cfg, depth = a["cfg"], a["depth"]
    env = worker.ENV
    viol = []
    persig = {}
    stats = {"states": 0, "transitions": 0, "bounded_time_runs": 0, "bounded_time_runs_peer_not_reading": 0, "max_depth": 0}
    reach = set()

    def report(clause, detail, hist, **extra):
        cid = "%s/%s/%s" % (cfg["role"], "drop" if cfg["failByDrop"] else "close", cfg["start"])
        if cfg.get("via"):
            cid += "/options-on-protocol-" + cfg["via"]
        sig = "C05|%s|%s|%s" % (clause, cfg["role"], hist[-1] if hist else "init")
        persig[sig] = persig.get(sig, 0) + 1
        if persig[sig] <= 1:
            viol.append({"sig": sig,
                         "desc": "[%s echo=%s cht=%s sdt=%s fw=%s] history=%s : %s %s" % (
                             cid, cfg["echo"], cfg["cht"], cfg["sdt"], env.get("fw"), list(hist),
                             clause, detail),
                         "replay": {"env": {"fw": env.get("fw"), "nvx": "1"},
                                    "func": "props.c05:replay",
                                    "arg": dict({"cfg": cfg, "history": list(hist)}, **extra)}})
    s0 = build(cfg, ())
    seen = {digest(s0.canon())}
    frontier = [()]
    stats["states"] = 1
    sample = None
    for d in range(depth):
        nxt = []
        for h in frontier:
            base = build(cfg, h)
            for ev in base.enabled():
                s = build(cfg, h)
                s.step(ev)
                stats["transitions"] += 1
                hist = h + (ev,)
                for clause, detail in monitors(s, ev):
                    report(clause, detail, hist)
                for n_ in s.notes:
                    reach.add(n_)
                k = digest(s.canon())
                if k in seen:
                    continue
                seen.add(k)
                stats["states"] += 1
                nxt.append(hist)
                # reachability bookkeeping (vacuity guards)
                names = [e[0] for e in s.proto.rec]
                if "onClose" in names:
                    oc = s.proto.rec[names.index("onClose")]
                    reach.add("onclose_clean" if oc[1] else "onclose_unclean")
                    if "onOpen" not in names:
                        reach.add("connecting_lost")
                if s.proto.wasCloseHandshakeTimeout or s.proto.wasServerConnectionDropTimeout:
                    reach.add("close_timer_fired")
                for n_ in s.notes:
                    reach.add(n_)
                if "data_after_our_close" in s.notes:
                    reach.add("data_after_our_close_ignored")
                if any(f.opcode == 8 for f in s.wire()):
                    reach.add("closeframe_sent")
                if closing_begun(s):
                    bad, s2 = bounded_time(cfg, hist)
                    stats["bounded_time_runs"] += 1
                    for clause, detail in bad:
                        report("bounded:" + clause, detail, hist)
                    if not bad and not s.t.disconnecting:
                        bad, s2 = bounded_time(cfg, hist, stalled=True)
                        stats["bounded_time_runs_peer_not_reading"] += 1
                        for clause, detail in bad:
                            report("bounded-peer-not-reading:" + clause, detail, hist, stalled=True)
                if sample is None and len(hist) == depth:
                    sample = {"cfg": cfg, "history": list(hist), "state": s.proto.state,
                              "rec": [e[0] for e in s.proto.rec]}
        frontier = nxt
        stats["max_depth"] = d + 1
        if not frontier:
            break
    for r in reach:
        stats["reached:" + r] = 1
    return {"evals": stats["transitions"], "viol": viol, "stats": stats,
            "samples": [sample] if sample else []}


def job_reasons(a):
    """close reasons of every length around the 123-octet limit built from 1-, 2-, 3- and 4-octet
    code points at every alignment: the close frame's reason must be valid UTF-8 of <= 123 octets and
    a prefix of the requested reason; also through echoCloseCodeReason and a failing peer"""
    from harness import ws
    from ref import ws_frames as F
    from mc import worker
    env = worker.ENV
    role = a["role"]
    viol = []
    n = 0
    seen = {}
    mask = b"\x01\x02\x03\x04" if role == "server" else None
    for ch in ("a", "é", "€", "\U0001F600"):
        w = len(ch.encode("utf8"))
        for pad in range(0, 4):
            for total in (100, 121, 122, 123, 124, 125, 126, 127, 200, 1000):
                k = max(0, (total - pad) // w)
                reason = "p" * pad + ch * k
                for mode in ("sendClose", "echo") + (("fail",) if role == "client" else ()):
                    if mode == "fail":
                        # the connection is FAILED with a long reason: the application's onConnect raises
                        # an exception whose text ends up in the close frame
                        def boom(proto, response, _r=reason):
                            raise RuntimeError(_r)
                        ep = ws.Endpoint("client", {"failByDrop": False}, hooks={"connect": boom})
                        ep.conn.settle()
                        req = bytes(ep.t.written)
                        start = len(req)
                        ep.feed(ep.client_response(req))
                        ep.conn.settle()
                        n += 1
                        frames, _ = F.parse_frames(bytes(ep.t.written[start:]))
                        closes = [f for f in frames if f.opcode == 8]
                        prob = None
                        if ep.conn.escapes:
                            prob = ("escape", repr(ep.conn.escapes[0])[:120])
                        elif len(closes) != 1:
                            prob = ("close-count", "%d close frames, state %s" % (len(closes), ep.state()))
                        elif len(closes[0].payload) > 125 or len(closes[0].payload[2:]) > 123:
                            prob = ("close-reason-too-long", str(len(closes[0].payload[2:])))
                        else:
                            try:
                                closes[0].payload[2:].decode("utf8")
                            except UnicodeDecodeError:
                                prob = ("close-reason-not-utf8", closes[0].payload[-6:].hex())
                        if prob:
                            sig = "C05|%s|%s|%s" % (prob[0], mode, role)
                            seen[sig] = seen.get(sig, 0) + 1
                            if seen[sig] <= 2:
                                viol.append({"sig": sig, "desc": "[%s fw=%s] onConnect raised an exception with a text "
                                             "of %d x %r + %d pad: %s" % (role, env.get("fw"), k, ch, pad, prob[1]),
                                             "replay": {"env": {"fw": env.get("fw"), "nvx": "1"},
                                                        "func": "props.c05:job_reasons", "arg": a}})
                        continue
                    ep = ws.open_endpoint(role, {"echoCloseCodeReason": mode == "echo", "failByDrop": False})
                    start = len(ep.t.written)
                    try:
                        if mode == "sendClose":
                            ep.proto.sendClose(3000, reason)
                        else:
                            r = reason.encode("utf8")[:123]
                            while True:
                                try:
                                    r.decode("utf8")
                                    break
                                except UnicodeDecodeError:
                                    r = r[:-1]
                            ep.feed(F.encode(8, F.close_payload(3001, r), mask=mask))
                            reason = r.decode("utf8")
                    except Exception as e:
                        viol.append({"sig": "C05|reason|api-error|%s" % role, "desc": repr(e),
                                     "replay": {"env": {"fw": env.get("fw"), "nvx": "1"},
                                                "func": "props.c05:job_reasons", "arg": a}})
                        continue
                    n += 1
                    frames, _ = F.parse_frames(bytes(ep.t.written[start:]))
                    closes = [f for f in frames if f.opcode == 8]
                    prob = None
                    if len(closes) != 1:
                        prob = ("close-count", str(len(closes)))
                    else:
                        pl = closes[0].payload[2:]
                        if len(pl) > 123:
                            prob = ("close-reason-too-long", str(len(pl)))
                        else:
                            try:
                                got = pl.decode("utf8")
                                if not reason.startswith(got) or (len(reason.encode("utf8")) <= 123 and got != reason):
                                    prob = ("close-reason-altered", "%r vs %r" % (got[:20], reason[:20]))
                                elif len(reason.encode("utf8")) > 123 and len(pl) < 120:
                                    prob = ("close-reason-truncated-too-much", str(len(pl)))
                            except UnicodeDecodeError:
                                prob = ("close-reason-not-utf8", pl[-6:].hex())
                    if prob:
                        sig = "C05|%s|%s|%s" % (prob[0], mode, role)
                        seen[sig] = seen.get(sig, 0) + 1
                        if seen[sig] <= 2:
                            viol.append({"sig": sig, "desc": "[%s fw=%s] %s reason=%d x %r + %d pad: %s" % (
                                role, env.get("fw"), mode, k, ch, pad, prob[1]),
                                "replay": {"env": {"fw": env.get("fw"), "nvx": "1"},
                                           "func": "props.c05:job_reasons", "arg": a}})
    # ---- status codes handed to the LOCAL sendClose(): refused locally (nothing written), or exactly
    # that code on the wire - and then it is one the API documents (1000, 3000-4999)
    import struct
    menu = list(range(0, 1100)) + list(range(2990, 3011)) + list(range(4990, 5011)) + \
        [65535, 65536, -1, -1000, False, True, 1000.0, "1000", b"\x03\xe8", 2 ** 31, None]
    nloc = 0
    for code in menu:
        for reason in (None, "bye"):
            if code is None and reason is not None:
                continue
            ep = ws.open_endpoint(role, {"failByDrop": False})
            start = len(ep.t.written)
            raised = None
            try:
                ep.proto.sendClose(code, reason) if reason is not None else ep.proto.sendClose(code)
            except Exception as e:
                raised = e
            ep.conn.settle()
            nloc += 1
            out = bytes(ep.t.written[start:])
            frames, used = F.parse_frames(out)
            closes = [f for f in frames if f.opcode == 8]
            prob = None
            if raised is not None:
                if out:
                    prob = ("local-close-refused-but-written", "%r raised and %d octets written" % (raised, len(out)))
            elif used != len(out) or len(closes) != 1 or len(frames) != 1:
                prob = ("local-close-frames", "sendClose(%r) wrote %d frames (%d close)" % (code, len(frames), len(closes)))
            else:
                pl = closes[0].payload
                wire_code = struct.unpack("!H", pl[:2])[0] if len(pl) >= 2 else None
                if code is None:
                    if pl:
                        prob = ("local-close-payload", "sendClose() wrote payload %s" % pl.hex())
                elif len(pl) < 2 or type(code) is not int or wire_code != code or \
                        not (code == 1000 or 3000 <= code <= 4999):
                    prob = ("illegal-local-close-code", "sendClose(%r%s) was accepted and wrote a close frame with "
                            "payload %s (status %r)" % (code, "" if reason is None else ", %r" % reason, pl.hex(), wire_code))
            if prob:
                sig = "C05|%s|sendClose|%s" % (prob[0], role)
                seen[sig] = seen.get(sig, 0) + 1
                if seen[sig] <= 2:
                    viol.append({"sig": sig, "desc": "[%s fw=%s] %s" % (role, env.get("fw"), prob[1]),
                                 "replay": {"env": {"fw": env.get("fw"), "nvx": "1"},
                                            "func": "props.c05:job_reasons", "arg": a}})
    return {"evals": n + nloc, "viol": viol, "stats": {"reason_cases": n, "local_close_code_cases": nloc}}


def job_codes(a):
    """ALL 65536 close status codes a peer can send (with and without echoCloseCodeReason, both
    roles, failByDrop on/off): whatever close frame the endpoint writes in reply carries a status
    code that may legally appear on the wire; a code the RFC forbids on the wire is never echoed and
    never reported as a clean close code"""
    import struct
    from harness import ws
    from ref import ws_frames as F
    from mc import worker
    env = worker.ENV
    role, echo, fbd = a["role"], a["echo"], a["fbd"]
    mask = b"\x0a\x0b\x0c\x0d" if role == "server" else None
    viol = []
    seen = {}
    stats = {"code_cases": 0, "code_echoed": 0, "code_rejected": 0}
    for code in range(a["lo"], a["hi"]):
        ep = ws.open_endpoint(role, {"echoCloseCodeReason": echo, "failByDrop": fbd})
        start = len(ep.t.written)
        if code % 4 == 1:
            # the close frame arrives INSIDE a fragmented text message whose first fragment ends in
            # the middle of a multi-octet character (legal: control frames may be interleaved); the
            # close reason is judged on its own
            ep.feed(F.encode(1, b"caf\xc3", fin=False, mask=mask))
            stats["close_inside_open_text_message"] = stats.get("close_inside_open_text_message", 0) + 1
        ep.feed(F.encode(8, struct.pack("!H", code) + b"r", mask=mask))
        ep.conn.settle()
        if ep.conn.own_drop_pending():
            ep.conn.deliver_own_drop()
        elif not ep.conn.lost:
            ep.conn.peer_drop(True)
        ep.conn.settle()
        stats["code_cases"] += 1
        frames, _ = F.parse_frames(bytes(ep.t.written[start:]))
        closes = [f for f in frames if f.opcode == 8]
        probs = []
        if len(closes) > 1:
            probs.append(("two-close-frames", ""))
        acc = F.close_code_acceptable_from_peer(code)
        for f in closes:
            if len(f.payload) >= 2:
                c = struct.unpack("!H", f.payload[:2])[0]
                if not F.close_code_wire_legal(c):
                    probs.append(("close-code-not-wire-legal", "peer sent %d, we wrote %d" % (code, c)))
                if c == code:
                    stats["code_echoed"] += 1
        oc = [e for e in ep.rec if e[0] == "onClose"]
        if len(oc) != 1:
            probs.append(("onclose-count", str(oc)))
        elif acc == "reject":
            stats["code_rejected"] += 1
            if oc[0][1] is True and oc[0][2] == code:
                probs.append(("forbidden-code-reported-as-clean-close", "code %d: %s" % (code, oc[0][1:])))
            if fbd and closes:
                probs.append(("closeframe-despite-failByDrop", "code %d" % code))
            if not fbd and closes:
                c = struct.unpack("!H", closes[0].payload[:2])[0] if len(closes[0].payload) >= 2 else None
                if c != 1002:
                    probs.append(("forbidden-code-not-answered-with-1002", "peer sent %d, we wrote %s" % (code, c)))
        elif acc == "accept":
            if oc[0][1] is not True or oc[0][2] != code:
                probs.append(("valid-code-not-reported", "code %d: onClose%s" % (code, oc[0][1:])))
        if ep.conn.escapes:
            probs.append(("escape", repr(ep.conn.escapes[0])[:120]))
        for clause, detail in probs:
            sig = "C05|%s|codes|%s" % (clause, role)
            seen[sig] = seen.get(sig, 0) + 1
            if seen[sig] <= 2:
                viol.append({"sig": sig, "desc": "[%s echo=%s failByDrop=%s fw=%s] peer close code %d: %s %s" % (
                    role, echo, fbd, env.get("fw"), code, clause, detail),
                    "replay": {"env": {"fw": env.get("fw"), "nvx": "1"}, "func": "props.c05:job_codes",
                               "arg": dict(a, lo=code, hi=code + 1)}})
    return {"evals": stats["code_cases"], "viol": viol, "stats": stats}


def replay(a):
    cfg, hist = a["cfg"], a["history"]
    s = build(cfg, ())
    out = []
    viol = []
    for i, ev in enumerate(hist):
        s.step(ev)
        b = monitors(s, ev)
        out.append({"event": ev, "state": s.proto.state, "rec": [e[0] for e in s.proto.rec],
                    "calls": list(s.t.calls), "timers": s.conn.pending_timers(), "violations": b})
        viol += [{"sig": c, "desc": d} for c, d in b]
    if closing_begun(s):
        bad, _ = bounded_time(cfg, tuple(hist))
        out.append({"bounded_time": bad})
        viol += [{"sig": "bounded:" + c, "desc": d} for c, d in bad]
        if a.get("stalled"):
            bad, _ = bounded_time(cfg, tuple(hist), stalled=True)
            out.append({"bounded_time_peer_not_reading": bad})
            viol += [{"sig": "bounded-peer-not-reading:" + c, "desc": d} for c, d in bad]
    return {"trace": out, "viol": viol}


MANIFEST = {
    "text": "Explicit-state BFS (canonical state hashing) over event histories of one real endpoint per "
            "configuration (role x failByDrop x echoCloseCodeReason x close/drop timeouts x start in "
            "OPEN or CONNECTING), Twisted and asyncio: every (state, event) transition is executed on a "
            "fresh real protocol object under a virtual clock; monitors (forward-only state, onClose "
            "once/after transport loss/last, <=1 close frame, no data frame after it, wire-legal code, "
            "UTF-8 reason <=123, clean only with close frames both ways and the peer's code/reason, "
            "is_closed resolved with CLOSED, nothing escapes) run on every transition; for every new "
            "state in which closing has begun, a silent-peer side run checks that the transport is "
            "dropped within close+drop timeouts (+1 s timer granularity) and that no timer has an "
            "effect afterwards."
            " From CONNECTING also well-formed handshakes that must be refused (alone and with a frame behind them in the same read: never OPEN, nothing delivered); the bounded-time side run is repeated against a peer that has also stopped reading (only an abort ends the connection)."
            " Further configurations: options declared per connection while the factory's differ; automatic pings with the peer answering the outstanding ping.",
    "note": "Trusted: env/ transports and clock, canonical snapshot (over-fine: all close-related "
            "attributes, buffers, timers, transport flags, log abstraction). Depth-bounded; one payload "
            "per event kind.",
    "technique": "explicit-state BFS over event histories of the real endpoint with canonical state "
                 "hashing, safety monitors on every transition, bounded-liveness side runs",
}
