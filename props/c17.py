"""
C17 - silent peers are dropped on time, responsive peers never.

One real endpoint on a virtual clock stepped on a 0.25 s grid; connection start offsets
{0, 0.3, 0.999} (the batched timer truncates deadlines to whole seconds).  Every placement
of each peer reaction (handshake octets, close reply, TCP drop, pong / data frame) on the
grid before / at / after each deadline is enumerated, for all timeout settings of a grid,
both roles, Twisted and asyncio.
"""
LEVEL = "model_checking"
RULE = ("an execution = (environment, role, scenario, timeout configuration, start offset, reaction "
        "placement(s) on the 0.25 s grid) run on a fresh real endpoint with the clock stepped in "
        "0.25 s increments; states = distinct (scenario, configuration, start offset) tuples, "
        "transitions = executions; non-trivial = every execution (each arms at least one timer)")
ASSUMPTIONS = [
    "timeouts/intervals from {1,2,5} s (quick: {1,2}); reactions on a 0.25 s grid; a reaction "
    "strictly inside (deadline-1s, deadline] may or may not beat the timer (granularity)",
    "a timer may fire up to 1.2 s early (whole-second truncation + 200 ms buckets of the batched "
    "timer); that is not judged except through the 'responsive peer' clause",
]

GRID = 0.25
STARTS = [0.0, 0.3, 0.999]
_PROXY = False        # job variant: the client connects through an explicit HTTP proxy
_STALLED = False      # job variant: the peer stops reading (written octets stay in the write buffer)


def main(ctx):
    tier = ctx.tier
    vals = [1, 2, 5] if tier == "thorough" else [1, 2]
    for fw in ("tx", "aio"):
        jobs = []
        for role in ("server", "client"):
            for start in STARTS:
                for D in vals:
                    jobs.append({"sc": "open", "role": role, "start": start, "D": D})
                for cht in vals:
                    for sdt in (vals if role == "client" else [1]):
                        jobs.append({"sc": "close", "role": role, "start": start, "cht": cht,
                                     "sdt": sdt})
                if start == 0.0:
                    jobs.append({"sc": "disabled", "role": role, "start": start})
                for sdt in (vals if role == "client" else []):
                    jobs.append({"sc": "peerclose", "role": role, "start": start, "sdt": sdt})
                    if start == 0.0:
                        jobs.append({"sc": "peerclose", "role": role, "start": start, "sdt": sdt, "echo": True})
                if start == 0.0:
                    for cht in vals:
                        jobs.append({"sc": "close", "role": role, "start": start, "cht": cht,
                                     "sdt": vals[-1], "how": "fail"})
                        if role == "client":
                            # ... or by the application's onConnect() rejecting the server's response
                            jobs.append({"sc": "close", "role": role, "start": start, "cht": cht,
                                         "sdt": vals[-1], "how": "onconnect"})
                    jobs.append({"sc": "close", "role": role, "start": start, "cht": vals[-1] + 1,
                                 "sdt": vals[-1] + 1, "autoping": True})
                for I in vals:
                    for T in vals + [0]:
                        for restart in (True, False):
                            jobs.append({"sc": "ping", "role": role, "start": start, "I": I, "T": T,
                                         "restart": restart, "npings": 3 if tier == "thorough" else 2})
                            if start == 0.0 and T == vals[0]:
                                jobs.append({"sc": "ping", "role": role, "start": start, "I": I, "T": T,
                                             "restart": restart, "npings": 2, "app": "between-frames"})
                            if start == 0.0 and restart and T == vals[0]:
                                for size in (125, 124, 13):
                                    jobs.append({"sc": "ping", "role": role, "start": start, "I": I, "T": T,
                                                 "restart": restart, "npings": 2, "size": size})
        # a chatty peer: data frames every 0.5 s for the whole run, every ping answered at once - the
        # pings still leave at the configured interval
        for role in ("server", "client"):
            for I in (1, 2, 5):
                for T in (0, 2):
                    for restart in (True, False):
                        jobs.append({"sc": "chatty", "role": role, "start": 0.0, "I": I, "T": T,
                                     "restart": restart})
        # the silent peer has also stopped reading (unsent octets in the write buffer): only an
        # abort gets rid of such a connection
        for j in list(jobs):
            if j["sc"] in ("open", "close") or (j["sc"] == "ping" and j["T"]):
                if j["start"] == 0.0:
                    jobs.append(dict(j, stalled=True))
            # the client reaches the server through an explicit proxy: the opening-handshake deadline
            # covers the CONNECT phase as well
            if j["sc"] == "open" and j["role"] == "client":
                jobs.append(dict(j, proxy=True))
                # ... the proxy answers at once, the server behind it late or never
                jobs.append(dict(j, proxy="early"))
        ctx.pmap({"fw": fw, "nvx": "1"}, "props.c17:job", jobs)
    ctx.coverage["states"] = int(ctx.counters["configs"])
    ctx.coverage["transitions"] = int(ctx.counters["evaluations"])
    ctx.coverage["traces_validated_against_impl"] = int(ctx.counters["evaluations"])
    ctx.coverage["distinct_nontrivial"] = int(ctx.counters["evaluations"])
    for n in ("open:silent_dropped", "open:responsive_ok", "close:silent_dropped",
              "close:responsive_ok", "drop:silent_dropped", "drop:responsive_ok",
              "ping:silent_dropped", "ping:responsive_ok", "ping:data_counts",
              "ping:data_does_not_count", "after_closed_checked", "pings_seen", "disabled_ok",
              "stalled_peer_jobs", "ping:chatty_peer_runs", "ping:fragment_as_traffic", "proxy_jobs", "proxy_answers_at_once", "close_started_by_failing", "close_started_by_failing_onconnect", "close_with_autoping", "ping_size_125", "ping:connection_ends_with_ping_outstanding", "ping:app_between_streamed_frames", "ping:app_closes_with_ping_outstanding",
              "peerclose_echo"):
        ctx.require(n)


# ---------------------------------------------------------------------------
class Run:
    """real endpoint + time line bookkeeping"""

    def __init__(self, role, opts, start):
        self.stalled = _STALLED
        from harness import ws
        from ref import ws_frames as F
        self.F = F
        self.role = role
        self.proxy = _PROXY and role == "client"
        self.ep = ws.Endpoint(role, opts, start=start,
                              **({"proxy": {"host": "proxy.local", "port": 3128}} if self.proxy else {}))
        self.conn = self.ep.conn
        self.p = self.ep.proto
        self.t = self.ep.t
        self.t0 = self.conn.now()
        self.mask = b"\x21\x43\x65\x87" if role == "server" else None
        self.drop_time = None
        self.parsed = 0
        self.hs_len = None
        self.pings = []      # (time, payload)
        self.timeline = []
        if self.stalled and role == "client":
            # the peer never reads: not even the client's opening request leaves the buffer
            self.t.stalled = True
            self.t.unsent += len(self.t.written)

    def now(self):
        return round(self.conn.now() - self.t0, 6)

    def proxy_answer(self):
        """the proxy accepts the CONNECT at once; the server's answer comes (or does not come) later"""
        if self.proxy and not getattr(self, "proxy_done", False):
            self.conn.settle()
            self.ep.feed(b"HTTP/1.1 200 Connection established\r\n\r\n")
            self.conn.settle()
            self.proxy_done = True

    def handshake(self):
        ep = self.ep
        if self.role == "server":
            ep.feed(ep.server_request())
        else:
            self.conn.settle()
            if self.proxy and getattr(self, "proxy_done", False):
                if self.conn.lost or not self.t.reading():
                    self.hs_len = len(self.t.written)
                    self.parsed = self.hs_len
                    return
                # only the octets after the CONNECT request are the WebSocket request
                req = bytes(self.t.written)
                ep.feed(ep.client_response(req[req.find(b"GET "):] if b"GET " in req else req))
                self.hs_len = len(self.t.written)
                self.parsed = self.hs_len
                return
            if self.proxy:
                # the proxy accepts the CONNECT, then the server answers the handshake
                ep.feed(b"HTTP/1.1 200 Connection established\r\n\r\n")
                self.conn.settle()
                if b"Sec-WebSocket-Key" not in bytes(self.t.written):
                    # the connection was given up before the proxy answered: nothing to answer
                    self.hs_len = len(self.t.written)
                    self.parsed = self.hs_len
                    return
            ep.feed(ep.client_response(bytes(self.t.written)))
        self.hs_len = len(self.t.written)
        self.parsed = self.hs_len
        if self.stalled:
            # from now on the peer does not read any more
            self.t.stalled = True

    def scan_wire(self):
        """pick up frames written since the last scan"""
        if self.hs_len is None:
            return []
        frames, used = self.F.parse_frames(bytes(self.t.written[self.parsed:]))
        self.parsed += used
        for f in frames:
            if f.opcode == 9:
                self.pings.append((self.now(), f.payload))
        return frames

    def tick(self):
        self.conn.advance(GRID)
        self.scan_wire()
        if self.drop_time is None and (self.t.calls or self.conn.lost):
            self.drop_time = self.now()

    def run_until(self, t, actions=None):
        """step the clock to relative time t, performing actions {time: fn} when reached"""
        # actions: list of (time, fn), performed in list order once their time is reached
        if isinstance(actions, dict):
            actions = sorted(actions.items())
        actions = list(actions or [])
        done = set()

        def due():
            for i, (at, fn) in enumerate(actions):
                if i not in done and self.now() >= at - 1e-9:
                    done.add(i)
                    fn()
        while self.now() < t - 1e-9:
            due()
            self.tick()
        due()
        self.scan_wire()
        if self.drop_time is None and (self.t.calls or self.conn.lost):
            self.drop_time = self.now()

    def feed_frame(self, op, payload=b"", fin=True):
        if not self.conn.lost and self.t.reading():
            self.ep.feed(self.F.encode(op, payload, fin=fin, mask=self.mask))
            self.scan_wire()
            if self.drop_time is None and (self.t.calls or self.conn.lost):
                self.drop_time = self.now()

    def finish(self):
        """deliver our own drop (if any) and check that nothing happens afterwards"""
        bad = []
        if self.conn.own_drop_pending():
            self.conn.deliver_own_drop()
            self.conn.settle()
        closed = self.conn.lost
        if closed:
            def verdict_():
                p_ = self.p
                return (p_.state, p_.wasClean, p_.wasNotCleanReason, p_.wasCloseHandshakeTimeout,
                        p_.wasServerConnectionDropTimeout, p_.wasOpenHandshakeTimeout,
                        getattr(p_, "remoteCloseCode", None), getattr(p_, "localCloseCode", None))
            w, n, st = len(self.t.written), len(self.p.rec), verdict_()
            timers0 = self.conn.pending_timers()
            self.conn.advance(60.0)
            if len(self.t.written) != w or len(self.p.rec) != n or verdict_() != st:
                bad.append(("effect-after-closed", "written+%d rec=%s; state/verdict %r -> %r (timers pending at "
                            "close: %s)" % (len(self.t.written) - w, self.p.rec[n:], st, verdict_(), timers0)))
        if self.conn.escapes:
            bad.append(("escape", repr(self.conn.escapes[0])[:160]))
        return bad, closed

    def onclose(self):
        oc = [e for e in self.p.rec if e[0] == "onClose"]
        return oc


def frange(a, b):
    x = a
    out = []
    while x <= b + 1e-9:
        out.append(round(x, 6))
        x += GRID
    return out


def job(a):
    from mc import worker
    env = worker.ENV
    stats = {"configs": 1}
    viol = []
    persig = {}
    evals = [0]
    samples = []

    def bad(clause, detail, case):
        sig = "C17|%s|%s|%s" % (clause, a["sc"], a["role"])
        persig[sig] = persig.get(sig, 0) + 1
        if persig[sig] <= 2:
            viol.append({"sig": sig, "desc": "[%s fw=%s] %s case=%s: %s" % (
                {k: v for k, v in a.items()}, env.get("fw"), clause, case, detail),
                "replay": {"env": {"fw": env.get("fw"), "nvx": "1"}, "func": "props.c17:job",
                           "arg": a}})

    def count(k):
        stats[k] = stats.get(k, 0) + 1

    def check_unclean(r, keyword, case):
        oc = r.onclose()
        if len(oc) != 1:
            bad("onclose-count", "expected one onClose got %s" % (oc,), case)
            return
        _, clean, code, reason = oc[0]
        if clean or code != 1006 or keyword not in (reason or ""):
            bad("onclose-args", "expected (False,1006,'..%s..') got %s" % (keyword, oc[0][1:]), case)

    def after(r, case):
        b, closed = r.finish()
        for c, d in b:
            bad(c, d, case)
        if closed:
            count("after_closed_checked")
        return closed

    role, start = a["role"], a["start"]
    sc = a["sc"]
    global _STALLED, _PROXY
    _PROXY = bool(a.get("proxy"))
    if _PROXY:
        count("proxy_jobs")
    _STALLED = stalled = bool(a.get("stalled"))
    if stalled:
        count("stalled_peer_jobs")
    if sc == "open":
        D = a["D"]
        for react in ([None] if stalled else frange(0, D + 1.0) + [None]):
            r = Run(role, {"openHandshakeTimeout": D, "closeHandshakeTimeout": 1}, start)
            evals[0] += 1
            acts = {} if react is None else {react: r.handshake}
            if a.get("proxy") == "early":
                acts = [(0.0, r.proxy_answer)] + sorted(acts.items())
                count("proxy_answers_at_once")
            r.run_until(D + 2.0, acts)
            case = {"react": react}
            if react is None or react > D + 1e-9:
                # silent (or too late): dropped no later than the deadline
                if r.drop_time is None or r.drop_time > D + 1e-9:
                    bad("not-dropped-by-deadline", "drop_time=%s deadline=%s" % (r.drop_time, D), case)
                else:
                    count("open:silent_dropped")
                if r.p.state == 3:
                    bad("open-after-deadline", "", case)
                after(r, case)
                # never opened: no onOpen; onClose for a never-open connection is unclean if given
                if any(e[0] == "onOpen" for e in r.p.rec):
                    bad("onopen-after-timeout", str(r.p.rec), case)
                if not r.p.wasOpenHandshakeTimeout or "opening handshake timeout" not in (
                        r.p.wasNotCleanReason or ""):
                    bad("reason", "wasNotCleanReason=%r" % r.p.wasNotCleanReason, case)
            elif react <= D - 1.0 + 1e-9:
                if r.drop_time is not None or r.p.state != 3:
                    bad("responsive-peer-dropped", "drop_time=%s state=%s" % (r.drop_time, r.p.state), case)
                else:
                    count("open:responsive_ok")
                r.run_until(D + 8.0)
                if r.drop_time is not None or r.p.state != 3:
                    bad("responsive-peer-dropped-later", "drop_time=%s" % r.drop_time, case)
            else:
                count("open:grey_zone")
                after(r, case)
    elif sc == "close":
        cht, sdt = a["cht"], a["sdt"]
        opts = {"closeHandshakeTimeout": cht, "openHandshakeTimeout": 5}
        # how = "fail": the closing handshake is started by FAILING the connection (the peer sent a
        # frame with a reserved opcode, failByDrop=False): the same deadline and the same tolerance for
        # a peer that answers our close frame in time
        fail = a.get("how") in ("fail", "onconnect")
        onconnect = a.get("how") == "onconnect"
        if fail:
            opts["failByDrop"] = False
            count("close_started_by_failing")
        if onconnect:
            count("close_started_by_failing_onconnect")
        if role == "client":
            opts["serverConnectionDropTimeout"] = sdt
        if a.get("autoping"):
            # automatic pings are configured as well: their timers must not interfere with the closing
            # handshake (no ping can be sent any more once closing has begun)
            opts["autoPingInterval"] = 1
            opts["autoPingTimeout"] = 1
            count("close_with_autoping")
        for t1 in ((0.0,) if onconnect else (0.0, 0.5)):
            for reply in ([None] if stalled else frange(0, cht + 0.75) + [None]):
                drops = [None] if role == "server" or reply is None or reply > cht else \
                    frange(0, sdt + 0.75) + [None]
                for tdrop in drops:
                    r = Run(role, opts, start)
                    if onconnect:
                        def refuse(proto, response):
                            raise RuntimeError("the application does not like this server")
                        r.p.hooks = {"connect": refuse}
                    r.handshake()
                    evals[0] += 1
                    case = {"t1": t1, "reply": reply, "tcpdrop": tdrop}
                    if onconnect:
                        acts = []         # the closing handshake began while the response was processed
                    else:
                        acts = [(t1, (lambda: r.feed_frame(3, b"x")) if fail else (lambda: r.p.sendClose(1000, "x")))]
                    if reply is not None:
                        acts.append((t1 + reply, lambda: r.feed_frame(8, r.F.close_payload(1000, b"ok"))))
                        if tdrop is not None:
                            acts.append((t1 + reply + tdrop, lambda: (
                                None if r.conn.lost or r.conn.own_drop_pending()
                                else r.conn.peer_drop(clean=True))))
                    r.run_until(t1 + cht + (sdt if role == "client" else 0) + 2.5, acts)
                    if reply is None or reply > cht + 1e-9:
                        dl = t1 + cht
                        if r.drop_time is None or r.drop_time > dl + 1e-9:
                            bad("not-dropped-by-deadline", "drop_time=%s deadline=%s" % (r.drop_time, dl), case)
                        else:
                            count("close:silent_dropped")
                        after(r, case)
                        check_unclean(r, "closing handshake timeout", case)
                    elif reply <= cht - 1.0 + 1e-9:
                        # the close timer must not fire; what follows depends on the role
                        if r.p.wasCloseHandshakeTimeout:
                            bad("responsive-peer-dropped", "close timer fired although reply at +%s" % reply, case)
                        else:
                            count("close:responsive_ok")
                        if role == "server":
                            after(r, case)
                            oc = r.onclose()
                            if len(oc) != 1 or (oc[0][1] is not True and not fail):
                                bad("clean-close-not-reported", str(oc), case)
                        else:
                            if tdrop is None or tdrop > sdt + 1e-9:
                                dl = t1 + reply + sdt
                                if r.drop_time is None or r.drop_time > dl + 1e-6:
                                    bad("not-dropped-by-deadline", "server-drop timer: drop_time=%s deadline=%s" % (
                                        r.drop_time, dl), case)
                                else:
                                    count("drop:silent_dropped")
                                after(r, case)
                                check_unclean(r, "server did not drop TCP", case)
                            elif tdrop <= sdt - 1.0 + 1e-9 or tdrop < sdt - 1e-9:
                                # serverConnectionDropTimeout is an exact timer: any earlier drop counts
                                after(r, case)
                                oc = r.onclose()
                                if r.p.wasServerConnectionDropTimeout or len(oc) != 1 or (oc[0][1] is not True and not fail):
                                    bad("responsive-peer-dropped", "server dropped TCP at +%s but %s" % (tdrop, oc), case)
                                else:
                                    count("drop:responsive_ok")
                            else:
                                count("drop:grey_zone")
                                after(r, case)
                    else:
                        count("close:grey_zone")
                        after(r, case)
    elif sc == "disabled":
        # a timeout configured as 0 is disabled: a peer that reacts late - but does react - is never
        # dropped by that timer, and the handshake then completes normally
        for which in ("open", "close", "drop"):
            for late in (1.5, 3.0, 6.0):
                opts = {"openHandshakeTimeout": 0 if which == "open" else 5,
                        "closeHandshakeTimeout": 0 if which == "close" else 1}
                if role == "client":
                    opts["serverConnectionDropTimeout"] = 0 if which == "drop" else 1
                elif which == "drop":
                    continue
                r = Run(role, opts, start)
                evals[0] += 1
                case = {"disabled": which, "reaction_after": late}
                if which == "open":
                    r.run_until(late + 1.0, [(late, r.handshake)])
                    ok = r.drop_time is None and r.p.state == 3
                elif which == "close":
                    r.handshake()
                    acts = [(0.0, lambda: r.p.sendClose(1000, "x")),
                            (late, lambda: r.feed_frame(8, r.F.close_payload(1000, b"ok"))),
                            (late + 0.25, lambda: (None if r.conn.lost or r.conn.own_drop_pending()
                                                   else r.conn.peer_drop(clean=True)))]
                    r.run_until(late + 1.0, acts)
                    after(r, case)
                    oc = r.onclose()
                    ok = (not r.p.wasCloseHandshakeTimeout) and len(oc) == 1 and oc[0][1] is True
                else:
                    r.handshake()
                    acts = [(0.0, lambda: r.feed_frame(8, r.F.close_payload(1000, b"bye"))),
                            (late, lambda: (None if r.conn.lost or r.conn.own_drop_pending()
                                            else r.conn.peer_drop(clean=True)))]
                    r.run_until(late + 1.0, acts)
                    after(r, case)
                    oc = r.onclose()
                    ok = (not r.p.wasServerConnectionDropTimeout) and len(oc) == 1 and oc[0][1] is True
                if ok:
                    count("disabled_ok")
                else:
                    bad("dropped-although-timeout-disabled", "%s timeout = 0, peer reacted after %ss: drop_time=%s "
                        "onClose=%s" % (which, late, r.drop_time, r.onclose()), case)
    elif sc == "peerclose":
        # the peer (server) initiates the close; the client answers and waits for the TCP drop
        sdt = a["sdt"]
        opts = {"serverConnectionDropTimeout": sdt, "closeHandshakeTimeout": 1}
        if a.get("echo"):
            # the client echoes the server's close code and reason in its reply
            opts["echoCloseCodeReason"] = True
            count("peerclose_echo")
        for tc in (0.0, 0.75):
            for tdrop in frange(0, sdt + 0.75) + [None]:
                r = Run(role, opts, start)
                r.handshake()
                evals[0] += 1
                case = {"peer_close_at": tc, "tcpdrop": tdrop}
                acts = [(tc, lambda: r.feed_frame(8, r.F.close_payload(1000, b"bye")))]
                if tdrop is not None:
                    acts.append((tc + tdrop, lambda: (None if r.conn.lost or r.conn.own_drop_pending()
                                                      else r.conn.peer_drop(clean=True))))
                r.run_until(tc + sdt + 2.5, acts)
                if tdrop is None or tdrop > sdt + 1e-9:
                    dl = tc + sdt
                    if r.drop_time is None or r.drop_time > dl + 1e-6:
                        bad("not-dropped-by-deadline", "drop_time=%s deadline=%s" % (r.drop_time, dl), case)
                    else:
                        count("drop:silent_dropped")
                    after(r, case)
                    check_unclean(r, "server did not drop TCP", case)
                elif tdrop < sdt - 1e-9:
                    after(r, case)
                    oc = r.onclose()
                    if len(oc) != 1 or oc[0][1] is not True or oc[0][2] != 1000:
                        bad("responsive-peer-dropped", "server dropped TCP at +%s but %s" % (tdrop, oc), case)
                    else:
                        count("drop:responsive_ok")
                else:
                    after(r, case)
    elif sc == "chatty":
        I, T, restart = a["I"], a["T"], a["restart"]
        opts = {"autoPingInterval": I, "autoPingTimeout": T, "autoPingRestartOnAnyTraffic": restart,
                "openHandshakeTimeout": 5}
        for gap in (0.5, 0.75):
            r = Run(role, opts, start)
            r.handshake()
            evals[0] += 1
            case = {"chatty_gap": gap}
            horizon = 4 * I + 3
            seen = 0
            next_data = gap
            while r.now() < horizon and r.drop_time is None:
                r.tick()
                while seen < len(r.pings):
                    r.feed_frame(10, r.pings[seen][1])
                    seen += 1
                if r.now() >= next_data - 1e-9:
                    r.feed_frame(2, b"chat")
                    next_data += gap
            count("ping:chatty_peer_runs")
            times = [p_[0] for p_ in r.pings]
            if r.drop_time is not None:
                bad("responsive-peer-dropped", "chatty peer (data every %ss, every ping answered) dropped at %s" % (
                    gap, r.drop_time), case)
            elif not times or times[0] > I + GRID + 1e-9:
                bad("first-ping-late", "chatty peer (data every %ss): pings at %s (I=%s)" % (gap, times, I), case)
            else:
                gaps = [b_ - a_ for a_, b_ in zip(times, times[1:])]
                if any(g > I + 1.0 + GRID + 1e-9 for g in gaps) or horizon - times[-1] > I + 1.0 + 2 * GRID:
                    bad("pings-stopped", "chatty peer (data every %ss): pings at %s over %ss (I=%s)" % (
                        gap, times, horizon, I), case)
    elif sc == "ping":
        import itertools
        I, T, restart, npings = a["I"], a["T"], a["restart"], a["npings"]
        opts = {"autoPingInterval": I, "autoPingTimeout": T, "autoPingRestartOnAnyTraffic": restart,
                "openHandshakeTimeout": 5}
        if a.get("size"):
            opts["autoPingSize"] = a["size"]        # documented range 12..125
            count("ping_size_%d" % a["size"])
        if T:
            delays = sorted(set([0.0, 0.25, max(0.0, T - 1.0), T + 0.25])) + [None]
        else:
            delays = [0.0, 1.0, None]
        # "frag": the peer is streaming one long message: a non-final fragment is the only traffic
        kinds = ["pong", "data", "data+pong", "frag"]
        choices = [(d, k) for d in delays for k in (kinds if d is not None else ["-"])]
        # the connection ends while a ping is outstanding: closing handshake started by the peer followed
        # by the TCP end, or an abrupt TCP loss - afterwards the ping machinery has to be dead as well
        choices += [(0.25, "peer-close"), (0.25, "tcp-lost")]
        if T:
            # the application starts the closing handshake while a ping is outstanding and the peer stays
            # silent (the closing handshake's own timeout is later): the ping deadline still holds
            choices.append((0.25, "app-close"))
            opts["closeHandshakeTimeout"] = T + 3
        if stalled:
            choices = [(None, "-")]
        for plan in itertools.product(choices, repeat=npings):
            # a plan is only meaningful up to the first reaction that is expected to fail
            r = Run(role, opts, start)
            r.handshake()
            if a.get("app") == "between-frames":
                # the application is sending a long message with the frame-based streaming API and is
                # between two frames of it for the whole scenario: control frames may be interleaved
                r.p.beginMessage(True)
                r.p.sendMessageFrame(b"first frame of a streamed message")
                count("ping:app_between_streamed_frames")
            evals[0] += 1
            case = {"plan": [list(x) for x in plan]}
            horizon = (I + max(T, 1) + 2) * (npings + 1) + 2
            idx = 0
            answered_at = None
            grey = False
            dead = False
            expected_drop = None
            last_ping_seen = 0
            pong_times = []
            steps = 0
            frag_open = False
            ended_by_peer = None
            while r.now() < horizon and not dead:
                r.tick()
                steps += 1
                # react to new pings according to the plan
                while last_ping_seen < len(r.pings):
                    pt, payload = r.pings[last_ping_seen]
                    last_ping_seen += 1
                    count("pings_seen")
                    if len(payload) != (a.get("size") or 12):
                        bad("ping-payload-size", str(len(payload)), case)
                    if idx < len(plan):
                        d, k = plan[idx]
                    else:
                        d, k = (0.0, "pong")
                    idx += 1
                    if d is None:
                        if T:
                            expected_drop = (pt, pt + T, "silent")
                        continue
                    # schedule the reaction
                    at = pt + d
                    counts = (k in ("pong", "data+pong")) or (restart and T > 0)
                    if k == "app-close":
                        while r.now() < at - 1e-9 and r.drop_time is None:
                            r.tick()
                        if r.drop_time is None:
                            r.p.sendClose(1000, "bye")
                            expected_drop = (pt, pt + T, "silent-while-closing")
                            count("ping:app_closes_with_ping_outstanding")
                            # from now on the peer stays silent
                            idx = len(plan)
                            plan = tuple(plan) + ((None, "-"),) * 4
                            continue
                        dead = True
                        break
                    if k in ("peer-close", "tcp-lost"):
                        while r.now() < at - 1e-9 and r.drop_time is None:
                            r.tick()
                        if r.drop_time is None:
                            if k == "peer-close":
                                r.feed_frame(8, r.F.close_payload(1000, b"bye"))
                                if not (r.conn.lost or r.conn.own_drop_pending()):
                                    r.conn.peer_drop(clean=True)
                            else:
                                r.conn.peer_drop(clean=False)
                            ended_by_peer = k
                            count("ping:connection_ends_with_ping_outstanding")
                        dead = True
                        break
                    if T and (not counts or d > T + 1e-9):
                        expected_drop = (pt, pt + T, "late" if counts else "data-does-not-count")
                    while r.now() < at - 1e-9 and r.drop_time is None:
                        r.tick()
                    if r.drop_time is not None:
                        if T and d <= T - 1.0 + 1e-9 and counts:
                            bad("responsive-peer-dropped", "ping at %s, reaction %s planned at +%s, dropped at %s" % (
                                pt, k, d, r.drop_time), case)
                        dead = True
                        break
                    if k == "pong":
                        r.feed_frame(10, payload)
                    elif k == "data+pong":
                        # a data frame while the ping is outstanding, then the (late but timely) pong
                        if frag_open:
                            r.feed_frame(0, b"end")
                            frag_open = False
                        r.feed_frame(2, b"data")
                        r.feed_frame(10, payload)
                    elif k == "frag":
                        r.feed_frame(0 if frag_open else 2, b"part", fin=False)
                        frag_open = True
                        count("ping:fragment_as_traffic")
                    else:
                        if frag_open:
                            # finish the streamed message first (its final frame is data as well)
                            r.feed_frame(0, b"end")
                            frag_open = False
                        r.feed_frame(2, b"data")
                    if expected_drop is not None:
                        pass
                    elif T and d > T - 1.0 + 1e-9:
                        # grey zone: the reaction may or may not have beaten the timer
                        grey = True
                        pong_times.append((pt, r.now(), k))
                    elif counts:
                        pong_times.append((pt, r.now(), k))
                        expected_drop = None
                        if k in ("data", "frag"):
                            count("ping:data_counts")
                if r.drop_time is not None:
                    dead = True
            # verdicts
            if ended_by_peer:
                if not after(r, case):
                    bad("not-closed", "connection ended by the peer (%s) but the endpoint is not closed" % ended_by_peer, case)
                oc = r.onclose()
                if len(oc) != 1 or (ended_by_peer == "peer-close" and (oc[0][1] is not True or oc[0][2] != 1000)) \
                        or (ended_by_peer == "tcp-lost" and (oc[0][1] is not False or oc[0][2] != 1006)):
                    bad("onclose-args", "%s while a ping was outstanding: onClose %s" % (ended_by_peer, oc), case)
            elif expected_drop is not None:
                pt, dl, why = expected_drop
                if r.drop_time is None or r.drop_time > dl + 1e-9:
                    bad("not-dropped-by-deadline", "ping at %s (%s): drop_time=%s deadline=%s" % (
                        pt, why, r.drop_time, dl), case)
                else:
                    count("ping:silent_dropped")
                    if why == "data-does-not-count":
                        count("ping:data_does_not_count")
                after(r, case)
                check_unclean(r, "ping timeout", case)
            elif grey:
                count("ping:grey_zone")
                after(r, case)
            else:
                if r.drop_time is not None:
                    bad("responsive-peer-dropped", "dropped at %s although every ping was answered in time; pings=%s" % (
                        r.drop_time, [p[0] for p in r.pings]), case)
                else:
                    count("ping:responsive_ok")
                # pings keep leaving: spacing after each answered ping
                times = [p[0] for p in r.pings]
                for (pt, at, k) in pong_times:
                    nxt = [x for x in times if x > pt + 1e-9]
                    if not nxt:
                        if at + I + GRID < horizon - GRID:
                            bad("pings-stopped", "no ping after the one at %s answered at %s (I=%s)" % (pt, at, I), case)
                        continue
                    gap = nxt[0] - at
                    if gap > I + GRID + 1e-9 or gap < I - 1.2 - GRID:
                        bad("ping-interval", "next ping %.2fs after the answer (I=%s)" % (gap, I), case)
                if not times:
                    bad("no-ping-sent", "I=%s horizon=%s" % (I, horizon), case)
                elif times[0] > I + GRID + 1e-9:
                    bad("first-ping-late", "first ping at %s (I=%s)" % (times[0], I), case)
            if not samples:
                samples.append({"scenario": "ping", "cfg": a, "plan": case["plan"],
                                "ping_times": [p[0] for p in r.pings], "drop_time": r.drop_time})
    if not samples:
        samples.append({"scenario": sc, "cfg": a})
    return {"evals": evals[0], "viol": viol, "stats": stats, "samples": samples}


MANIFEST = {
    "text": "Exhaustive placement of every peer reaction (handshake octets, close reply, TCP drop, pong "
            "or data frame per automatic ping, for sequences of 2-3 pings) on a 0.25 s virtual time "
            "grid before/at/after each deadline, for open/close/server-drop timeouts and auto-ping "
            "interval/timeout from a grid, connection start offsets {0,0.3,0.999} s, both roles, "
            "Twisted and asyncio, on a real endpoint: silent or late peers must be dropped no later "
            "than the deadline with onClose(False,1006,<matching reason>); peers reacting >=1 s before "
            "the deadline must never be dropped by that timer; pings keep leaving at the interval; "
            "after CLOSED a further 60 s of clock has no effect (no write, callback, state change, "
            "escaping exception)."
            " A chatty peer (data frames every 0.5/0.75 s between the pings) is still pinged at the configured interval; closing handshakes started by a client's failing onConnect().",
    "note": "Trusted: virtual clock/loop (env/), batched-timer granularity assumption (1.2 s early at "
            "most). Timeouts from {1,2,5} (quick {1,2}).",
    "technique": "exhaustive enumeration of timed schedules on a discretised virtual clock, executed on "
                 "the real endpoint",
}
