"""
RFC 6455 section 4 opening handshake, reference judgement (three-valued) written from
the RFC (+ RFC 7230 for the HTTP framing).  No autobahn imports.

judge_request(raw, cfg)  -> Verdict for a server receiving `raw`
judge_response(raw, ctx) -> Verdict for a client receiving `raw`
Verdict.v in {'accept', 'reject', 'either'}; .why; for accept: .accept_key, .protocols (client list)
"""
import base64
import hashlib
import re

GUID = b"258EAFA5-E914-47DA-95CA-C5AB0DC85B11"
TOKEN = re.compile(rb"^[!#$%&'*+\-.^_`|~0-9A-Za-z]+\Z")


class Verdict:
    def __init__(self, v, why=""):
        self.v = v
        self.why = why
        self.accept_key = None
        self.protocols = []
        self.extensions = []
        self.complete = True

    def __repr__(self):
        return "Verdict(%s, %s)" % (self.v, self.why)


def accept_key(key):
    return base64.b64encode(hashlib.sha1(key + GUID).digest())


def parse_http(raw):
    """-> (start_line, [(name_lower, value)], complete) or None if not even a start line;
    obs-fold and bare LF are not accepted (None marks malformed header lines)"""
    end = raw.find(b"\r\n\r\n")
    if end < 0:
        return None, [], False
    head = raw[:end]
    lines = head.split(b"\r\n")
    start = lines[0]
    headers = []
    for ln in lines[1:]:
        if b":" not in ln:
            headers.append((None, ln))
            continue
        n, v = ln.split(b":", 1)
        headers.append((n.lower(), v.strip(b" \t")))
    return start, headers, True


def _tokens(value):
    return [t.strip(b" \t").lower() for t in value.split(b",")]


def _ascii_clean(b):
    return all(0x20 <= c < 0x7F or c == 0x09 for c in b)


def version_ok(v):
    """RFC 6455 4.1/9.1 ABNF: 0..255 without leading zeros, digits only"""
    if not re.match(rb"^(0|[1-9][0-9]{0,2})\Z", v):
        return False
    return int(v) <= 255


def key_ok(k):
    if len(k) != 24 or not re.match(rb"^[A-Za-z0-9+/]{22}==\Z", k):
        return False
    try:
        return len(base64.b64decode(k, validate=True)) == 16
    except Exception:
        return False


def origin_allowed(origin, cfg):
    """three-valued: is this Origin header value admitted by the configured allow-list?
    cfg: allowedOrigins (list of patterns with * wildcards, matched against scheme://host:port),
    allowNullOrigin, server port / secure"""
    pats = cfg.get("allowedOrigins", ["*"])
    o = origin.strip()
    if o.lower().startswith(b"file:"):
        return "either"
    if o.lower() == b"null":
        if cfg.get("allowNullOrigin", True):
            return "accept"
        return "either" if pats == ["*"] else "reject"
    m = re.match(rb"^([a-zA-Z][a-zA-Z0-9+.\-]*)://([^/:?#\s]+|\[[0-9a-fA-F:]+\])(?::([0-9]{1,5}))?/?\Z", o)
    if not m:
        # not a serialized origin (RFC 6454): nothing sensible to match
        return "either" if pats == ["*"] else "reject"
    scheme, host, port = m.group(1).lower(), m.group(2).lower(), m.group(3)
    if port is None:
        port = {b"http": b"80", b"https": b"443", b"ws": b"80", b"wss": b"443"}.get(scheme)
    full = scheme + b"://" + host + (b":" + port if port else b"")
    verdicts = []
    for p in pats:
        pb = p.encode() if isinstance(p, str) else p
        if pb == b"*":
            return "accept"
        rx = b"^" + b".*".join(re.escape(x) for x in pb.lower().split(b"*")) + b"\\Z"
        # the configured patterns are matched against the whole "scheme://host:port"
        if re.match(rx, full):
            verdicts.append("accept")
    if verdicts:
        return "accept"
    return "reject"


def judge_request(raw, cfg):
    start, headers, complete = parse_http(raw)
    if not complete:
        v = Verdict("reject", "incomplete request (no CRLFCRLF)")
        v.complete = False
        return v
    either = []
    if not _ascii_clean(raw[:raw.find(b"\r\n\r\n")].replace(b"\r\n", b"")):
        # obs-text in field values is tolerated by RFC 7230; NUL / control octets are not
        if any(c < 0x20 and c != 0x09 for c in raw[:raw.find(b"\r\n\r\n")].replace(b"\r\n", b"")):
            return Verdict("reject", "control octets in the header section")
        either.append("non-ASCII octets in the header section")
    parts = start.split(b" ")
    if len(parts) != 3 or not all(parts):
        # RFC 7230 3.5: recipients MAY parse on whitespace-delimited word boundaries
        parts = start.split()
        if len(parts) != 3:
            return Verdict("reject", "malformed request line")
        either.append("lenient request-line whitespace")
    method, target, version = parts
    if method != b"GET":
        return Verdict("reject", "method %r" % method)
    mv = re.match(rb"^HTTP/([0-9])\.([0-9])\Z", version)
    if not mv:
        return Verdict("reject", "malformed HTTP version")
    ver = (int(mv.group(1)), int(mv.group(2)))
    if ver < (1, 1):
        return Verdict("reject", "HTTP version < 1.1")
    if ver != (1, 1):
        either.append("HTTP version > 1.1")
    if not target.startswith(b"/"):
        if re.match(rb"^(ws|wss|http|https)://", target):
            either.append("absolute-form target")
        elif target == b"*":
            either.append("asterisk-form target")
        else:
            return Verdict("reject", "request target %r" % target)
    if b"#" in target:
        either.append("fragment in target")
    if any(n is None for n, _ in headers):
        either.append("header line without colon")
        headers = [(n, v) for n, v in headers if n is not None]
    if any(not TOKEN.match(n) for n, _ in headers):
        return Verdict("reject", "malformed header name")
    h = {}
    for n, v in headers:
        h.setdefault(n, []).append(v)

    def one(name):
        vals = h.get(name, [])
        return vals[0] if len(vals) == 1 else None
    if b"host" not in h:
        return Verdict("reject", "Host missing")
    if len(h[b"host"]) > 1:
        return Verdict("reject", "duplicate Host")
    host = h[b"host"][0]
    mh = re.match(rb"^([A-Za-z0-9.\-_]+|\[[0-9A-Fa-f:.]+\])(?::([0-9]*))?\Z", host)
    if host == b"" or not mh:
        # the RFC only requires the field to be present; how strictly its value is validated
        # is left to the server
        either.append("odd Host value")
    if mh is not None and mh.group(2) is not None:
        if mh.group(2) == b"" or int(mh.group(2)) > 65535:
            either.append("odd Host port")
        elif cfg.get("externalPort") and int(mh.group(2)) != cfg["externalPort"]:
            either.append("Host port differs from externalPort")
    if b"upgrade" not in h:
        return Verdict("reject", "Upgrade missing")
    if not any(b"websocket" in _tokens(v) for v in h[b"upgrade"]):
        return Verdict("reject", "Upgrade without websocket token")
    if b"connection" not in h:
        return Verdict("reject", "Connection missing")
    if not any(b"upgrade" in _tokens(v) for v in h[b"connection"]):
        return Verdict("reject", "Connection without upgrade token")
    if b"sec-websocket-version" not in h:
        return Verdict("reject", "Sec-WebSocket-Version missing")
    if len(h[b"sec-websocket-version"]) > 1:
        return Verdict("reject", "duplicate Sec-WebSocket-Version")
    wv = h[b"sec-websocket-version"][0]
    if re.match(rb"^0+[0-9]{1,3}\Z", wv):
        # leading zeros violate the ABNF (NZDIGIT) but denote the same number: not judged
        either.append("leading zeros in version")
        wv = wv.lstrip(b"0") or b"0"
    if not version_ok(wv):
        return Verdict("reject", "malformed Sec-WebSocket-Version %r" % wv)
    if int(wv) not in cfg.get("versions", [8, 13]):
        return Verdict("reject", "unsupported version %d" % int(wv))
    if b"sec-websocket-key" not in h:
        return Verdict("reject", "Sec-WebSocket-Key missing")
    if len(h[b"sec-websocket-key"]) > 1:
        return Verdict("reject", "duplicate Sec-WebSocket-Key")
    key = h[b"sec-websocket-key"][0]
    if not key_ok(key):
        return Verdict("reject", "bad Sec-WebSocket-Key %r" % key)
    okey = b"origin" if int(wv) >= 13 else b"sec-websocket-origin"
    if okey in h:
        if len(h[okey]) > 1:
            either.append("duplicate Origin")
        else:
            oa = origin_allowed(h[okey][0], cfg)
            if oa == "reject":
                return Verdict("reject", "origin %r not allowed" % h[okey][0])
            if oa == "either":
                either.append("origin either")
    protocols = []
    for v in h.get(b"sec-websocket-protocol", []):
        for t in v.split(b","):
            t = t.strip(b" \t")
            if not t or not TOKEN.match(t):
                either.append("odd subprotocol token")
                protocols.append(t)
            elif t in protocols:
                either.append("duplicate subprotocol")
            else:
                protocols.append(t)
    if len(h.get(b"sec-websocket-extensions", [])) > 1:
        either.append("several extension headers")
    for v in h.get(b"sec-websocket-extensions", []):
        if not re.match(rb"^[A-Za-z0-9_\-]+(\s*;\s*[A-Za-z0-9_]+(\s*=\s*(\"[^\"]*\"|[A-Za-z0-9_\-]+))?)*"
                        rb"(\s*,\s*[A-Za-z0-9_\-]+(\s*;\s*[A-Za-z0-9_]+(\s*=\s*(\"[^\"]*\"|[A-Za-z0-9_\-]+))?)*)*\Z", v):
            either.append("odd extension header")
        elif b"permessage-" in v and (b"=" in v or b";" in v):
            either.append("compression offer parameters (judged in C12)")
    # (Upgrade / Connection are list-valued: several header lines are the same as one line with the
    # values joined by commas - RFC 7230 3.2.2 - and are judged like that above)
    mc = cfg.get("maxConnections", 0)
    if mc and cfg.get("currentConnections", 0) > mc:
        return Verdict("reject", "connection limit reached")
    v = Verdict("either" if either else "accept", "; ".join(either))
    v.accept_key = accept_key(key)
    v.protocols = protocols
    v.extensions = [x for vv in h.get(b"sec-websocket-extensions", []) for x in
                    [t.split(b";")[0].strip() for t in vv.split(b",")]]
    return v


def judge_response(raw, ctx):
    """ctx: key (client's Sec-WebSocket-Key), protocols (requested list, bytes), offered_extensions
    (list of extension names offered), accept_policy ('accept'|'decline')"""
    start, headers, complete = parse_http(raw)
    if not complete:
        v = Verdict("reject", "incomplete response")
        v.complete = False
        return v
    either = []
    if not _ascii_clean(raw[:raw.find(b"\r\n\r\n")].replace(b"\r\n", b"")):
        if any(c < 0x20 and c != 0x09 for c in raw[:raw.find(b"\r\n\r\n")].replace(b"\r\n", b"")):
            return Verdict("reject", "control octets in the header section")
        either.append("non-ASCII octets in the header section")
    m = re.match(rb"^HTTP/1\.1 ([0-9]{3})(?: (.*))?\Z", start)
    if not m:
        m2 = re.match(rb"^HTTP/[0-9]\.[0-9] ", start)
        return Verdict("reject", "malformed status line") if not m2 else Verdict("either", "other HTTP version")
    if m.group(1) != b"101":
        return Verdict("reject", "status %s" % m.group(1).decode())
    if any(n is None for n, _ in headers):
        either.append("header line without colon")
        headers = [(n, v) for n, v in headers if n is not None]
    if any(not TOKEN.match(n) for n, _ in headers):
        return Verdict("reject", "malformed header name")
    h = {}
    for n, v in headers:
        h.setdefault(n, []).append(v)
    if b"upgrade" not in h or not any(b"websocket" in _tokens(v) for v in h[b"upgrade"]):
        return Verdict("reject", "Upgrade missing / without websocket")
    if len(h[b"upgrade"]) > 1 or _tokens(h[b"upgrade"][0]) != [b"websocket"]:
        # RFC 6455 4.1: the value must match "websocket"; a list containing it may be refused
        either.append("Upgrade is a list")
    if b"connection" not in h or not any(b"upgrade" in _tokens(v) for v in h[b"connection"]):
        return Verdict("reject", "Connection missing / without upgrade")
    if b"sec-websocket-accept" not in h:
        return Verdict("reject", "Sec-WebSocket-Accept missing")
    if len(h[b"sec-websocket-accept"]) > 1:
        return Verdict("reject", "duplicate Sec-WebSocket-Accept")
    if h[b"sec-websocket-accept"][0] != accept_key(ctx["key"]):
        return Verdict("reject", "Sec-WebSocket-Accept is not the digest of our key")
    ps = h.get(b"sec-websocket-protocol", [])
    if len(ps) > 1:
        return Verdict("reject", "several Sec-WebSocket-Protocol headers")
    if ps and ps[0] == b"":
        either.append("empty Sec-WebSocket-Protocol value")
    elif ps:
        if ps[0] not in ctx.get("protocols", []):
            return Verdict("reject", "subprotocol %r not requested" % ps[0])
    elif ctx.get("protocols"):
        either.append("no subprotocol selected although some were requested")
    exts = h.get(b"sec-websocket-extensions", [])
    if exts:
        names = [t.split(b";")[0].strip() for vv in exts for t in vv.split(b",")]
        for nme in names:
            if nme not in ctx.get("offered_extensions", []):
                return Verdict("reject", "extension %r not offered" % nme)
        if len(names) != len(set(names)):
            return Verdict("reject", "extension repeated")
        if ctx.get("accept_policy") == "decline":
            return Verdict("reject", "extension declined by accept policy")
        either.append("extension parameters judged in C12")
    v = Verdict("either" if either else "accept", "; ".join(either))
    v.protocols = ps
    return v
