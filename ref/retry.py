"""
Reference model for C14 (component reconnect budget / completion), written from the
property statement only.  No autobahn imports.  Pure functions of
(configuration, outcome history, stop position).

Vocabulary
----------
outcome of one connection attempt (what the network / router / main did):
    refused       connection refused
    hs_reject     connected, transport handshake answered with an error
    hs_drop       connected, TCP dropped before the transport handshake completed
    abort         transport handshake fine, router answers HELLO with ABORT
    lost          session joined, later the transport is lost
    goodbye       session joined, router closes the session normally (GOODBYE wamp.close.normal)
    leave         session joined, application calls session.leave(), router acknowledges
    main_returns  session joined, main finishes
    main_raises   session joined, main fails

Statement clauses modelled
--------------------------
R1 round robin over the transports that can still be tried
R2 at most max_retries+1 attempts per transport since that transport's last successful join
   (max_retries == -1: unlimited)
R3 no attempt on a transport after an error on it that the classifier called fatal (the classifier's
   actual answers are an input; is_fatal() below is what a classifier looking at the outcome says)
R4 first attempt of a transport: no delay; later attempts: wait <= max_retry_delay of that transport
R5 a failed / lost connection is followed by a new attempt while any transport has attempts left
R6 start() result: ok after normal leave / main finished / stop(); error after main failed or when
   every transport is exhausted; exactly once
R7 component listeners connect/join/ready/leave/disconnect fire for every session created

Everything the statement does not fix is three-valued here (None = unspecified): the precise
backoff value, whether `leave` fires for a session that was ABORTed before joining, what happens to
an in-flight attempt after stop().
"""

FAIL_BEFORE_JOIN = ("refused", "hs_reject", "hs_drop", "abort")
JOINED = ("lost", "goodbye", "leave", "main_returns", "main_raises")
END_OK = ("goodbye", "leave", "main_returns")
END_ERR = ("main_raises",)
OUTCOMES = FAIL_BEFORE_JOIN + JOINED
SESSION_CREATED = ("abort",) + JOINED      # the transport handshake completed: a session exists


def is_fatal(kind, outcome):
    """the configured classifier applied to the error an outcome produces"""
    if kind is None or kind == "never":
        return False
    if kind == "refused":
        return outcome == "refused"
    if kind == "abort":
        return outcome == "abort"
    if kind == "always":
        return outcome in FAIL_BEFORE_JOIN or outcome == "lost" or outcome == "main_raises"
    raise ValueError(kind)


class State:
    """retry bookkeeping implied by the statement"""

    def __init__(self, cfg):
        self.cfg = cfg
        n = len(cfg["transports"])
        self.n = n
        self.since_join = [0] * n      # attempts since the transport's last successful join
        self.ever = [False] * n        # attempted at least once
        self.fatal = [False] * n
        self.joined_before = [False] * n
        self.retries = [0] * n         # consecutive failures since last join (for the backoff stat)
        self.last = -1                 # transport of the previous attempt
        self.final = None              # ("ok"|"err", reason) once a terminal event happened

    def can_try(self, t):
        if self.fatal[t]:
            return False
        mr = self.cfg["transports"][t].get("max_retries", -1)
        if mr == -1:
            return True
        return self.since_join[t] < mr + 1

    def next(self):
        """what must happen next:
        ("done", "ok"|"err", reason)  or  ("attempt", idx, first_time, max_wait)"""
        if self.final is not None:
            return ("done",) + self.final
        for k in range(1, self.n + 1):
            t = (self.last + k) % self.n
            if self.can_try(t):
                tc = self.cfg["transports"][t]
                return ("attempt", t, not self.ever[t], tc.get("max_retry_delay", 300))
        return ("done", "err", "exhausted")

    def apply(self, t, outcome, fatal=None):
        """an attempt on transport t happened and ended with outcome; fatal = what the configured
        classifier answered for the error of this attempt (None: derive it from the outcome)"""
        self.since_join[t] += 1
        self.ever[t] = True
        self.last = t
        if outcome in JOINED:
            self.since_join[t] = 0
            self.retries[t] = 0
            self.joined_before[t] = True
        else:
            self.retries[t] += 1
        if outcome in END_OK:
            self.final = ("ok", outcome)
        elif outcome in END_ERR:
            self.final = ("err", outcome)
        elif (is_fatal(self.cfg.get("is_fatal"), outcome) if fatal is None else fatal):
            self.fatal[t] = True

    def why_not(self, t):
        """why an attempt on t is not allowed (None if it is)"""
        if self.final is not None:
            return "after-terminal"
        if self.fatal[t]:
            return "after-fatal"
        if not self.can_try(t):
            return "over-budget"
        return None


def judge_sequence(cfg, attempts, ended, horizon=None, stop_at=None):
    """attempts: [(idx, outcome, wait[, classifier answer])] in order (classifier answer: what the
    is_fatal callback returned for the error of that attempt, None/absent = derive from the outcome), wait = virtual seconds between the end of the
    previous attempt (or start()) and this attempt, None if unknown.
    ended: what the run looked like when nothing more could happen:
        {"done": [("ok"|"err", ...)], "truncated": bool}
    stop_at: index of the first attempt that is not judged any more (stop() was called before it
    was started), None = judge all.
    -> (problems [(clause, shape, detail, transport index concerned)], state after the judged prefix, next expectation)"""
    st = State(cfg)
    problems = []
    judged = attempts if stop_at is None else attempts[:stop_at]
    for i, rec in enumerate(judged):
        idx, outcome, wait = rec[0], rec[1], rec[2]
        fatal_answer = rec[3] if len(rec) > 3 else None
        exp = st.next()
        if exp[0] == "done":
            why = st.why_not(idx) or "exhausted"
            prev = judged[i - 1][1] if i else "-"
            if why == "after-terminal":
                problems.append(("attempt-after-terminal", prev,
                                 "attempt %d on transport %d although the component had finished "
                                 "(%s after %s)" % (i, idx, exp[1], exp[2]), judged[i - 1][0] if i else idx))
            elif why == "after-fatal":
                problems.append(("attempt-after-fatal", prev,
                                 "attempt %d on transport %d after a fatal error on it" % (i, idx), idx))
            else:
                problems.append(("too-many-attempts", "joined-before" if st.joined_before[idx] else "plain",
                                 "attempt %d on transport %d exceeds max_retries+1=%s attempts since its "
                                 "last join" % (i, idx, cfg["transports"][idx].get("max_retries", -1) + 1), idx))
            return problems, st, exp
        _, eidx, first, maxw = exp
        if idx != eidx:
            why = st.why_not(idx)
            if why == "after-fatal":
                problems.append(("attempt-after-fatal", judged[i - 1][1] if i else "-",
                                 "attempt %d on transport %d after a fatal error on it (expected %d)" % (
                                     i, idx, eidx), idx))
            elif why == "over-budget":
                problems.append(("too-many-attempts", "joined-before" if st.joined_before[idx] else "plain",
                                 "attempt %d on transport %d exceeds its budget (expected transport %d)" % (
                                     i, idx, eidx), idx))
            elif st.joined_before[eidx]:
                # the expected transport was passed over although, counted from its last join, it
                # has attempts left: the budget clause (R2/R5), not the order, is what is broken
                problems.append(("no-retry-although-budget", "joined-before|transport-skipped",
                                 "attempt %d went to transport %d; transport %d was passed over although it "
                                 "has made only %d attempt(s) since its last successful join (max_retries %s)"
                                 % (i, idx, eidx, st.since_join[eidx],
                                    cfg["transports"][eidx].get("max_retries", -1)), eidx))
            else:
                problems.append(("round-robin", "expected-%d-got-%d" % (eidx, idx),
                                 "attempt %d went to transport %d, round robin over the transports "
                                 "with attempts left gives %d" % (i, idx, eidx), idx))
            return problems, st, exp
        if wait is not None:
            if first and wait != 0:
                problems.append(("first-attempt-delayed", "attempt%d" % min(i, 1),
                                 "first attempt of transport %d (attempt %d) started %.6g s after the "
                                 "previous attempt ended" % (idx, i, wait), idx))
            elif wait > maxw:
                problems.append(("delay-exceeds-max", "retry",
                                 "attempt %d on transport %d waited %.6g s > max_retry_delay %.6g" % (
                                     i, idx, wait, maxw), idx))
            elif wait < 0:
                problems.append(("negative-wait", "retry", "attempt %d started before the previous "
                                                             "one ended" % i, idx))
        if outcome is None:
            # attempt started but not answered (exploration horizon): nothing after it is judged
            return problems, st, ("unknown",)
        st.apply(idx, outcome, fatal_answer)
    exp = st.next()
    if stop_at is not None:
        return problems, st, exp
    if len(attempts) > len(judged):
        return problems, st, exp
    # nothing more happened: was something more required?
    done = ended.get("done") or []
    if exp[0] == "attempt":
        if not ended.get("truncated"):
            prev = judged[-1][1] if judged else "-"
            problems.append(("no-retry-although-budget",
                             ("joined-before" if st.joined_before[exp[1]] else "plain") + "|gave-up",
                             "after %d attempts transport %d still has attempts left (%d since its last "
                             "join, max_retries %s) but no new attempt was made; start() result: %s" % (
                                 len(judged), exp[1], st.since_join[exp[1]],
                                 cfg["transports"][exp[1]].get("max_retries", -1), done[:1]), exp[1]))
    else:
        if not done:
            problems.append(("done-missing", exp[2],
                             "start() result still pending although %s (%s expected)" % (exp[2], exp[1]),
                             judged[-1][0] if judged else None))
        elif done[0][0] != exp[1]:
            problems.append(("done-polarity", "expected-%s-after-%s" % (exp[1], exp[2]),
                             "start() result is %r, expected %s after %s" % (done[0], exp[1], exp[2]),
                             judged[-1][0] if judged else None))
    return problems, st, exp


def expected_events(outcome):
    """-> (required component-listener events, optional ones) for the session of an attempt with
    this outcome, None if no session is created"""
    if outcome not in SESSION_CREATED:
        return None
    if outcome == "abort":
        return ("connect", "disconnect"), ("leave",)
    return ("connect", "join", "ready", "leave", "disconnect"), ()


def backoff_candidates(tc, k, z):
    """documented-looking backoff values for the k-th consecutive retry (k>=1) of a transport:
    initial*growth^(k-1) and initial*growth^k, each with the jitter answer z applied once per
    step and capped.  Only used for statistics (the statement fixes the upper bound only)."""
    out = []
    for first_pow in (0, 1):
        d = tc.get("initial_retry_delay", 1.5)
        mx = tc.get("max_retry_delay", 300)
        g = tc.get("retry_delay_growth", 1.5)
        j = tc.get("retry_delay_jitter", 0.1)
        v = None
        for step in range(1, k + 1):
            if not (step == 1 and first_pow == 0):
                d = d * g
            d = d + z * d * j
            if d > mx:
                d = mx
            v = d
        out.append(v)
    return out
