"""
Reference for RFC 3629 / Unicode Table 3-7 well-formed UTF-8, written from the
code-point range table (not from Hoehrmann's DFA the implementation uses).

A reference *state* is the tuple of octet ranges still expected to complete the
current code point: () = on a code point boundary.  REJECT is a sink.
"""

CONT = (0x80, 0xBF)
REJECT = "REJECT"
START = ()

# lead octet range -> ranges of the following octets (Unicode 15, table 3-7)
_TABLE = [
    ((0x00, 0x7F), ()),
    ((0xC2, 0xDF), (CONT,)),
    ((0xE0, 0xE0), ((0xA0, 0xBF), CONT)),          # no overlong 3-octet forms
    ((0xE1, 0xEC), (CONT, CONT)),
    ((0xED, 0xED), ((0x80, 0x9F), CONT)),          # no surrogates D800..DFFF
    ((0xEE, 0xEF), (CONT, CONT)),
    ((0xF0, 0xF0), ((0x90, 0xBF), CONT, CONT)),    # no overlong 4-octet forms
    ((0xF1, 0xF3), (CONT, CONT, CONT)),
    ((0xF4, 0xF4), ((0x80, 0x8F), CONT, CONT)),    # nothing above U+10FFFF
]


def step(state, octet):
    if state == REJECT:
        return REJECT
    if state == START:
        for (lo, hi), rest in _TABLE:
            if lo <= octet <= hi:
                return rest
        return REJECT
    lo, hi = state[0]
    if lo <= octet <= hi:
        return state[1:]
    return REJECT


def scan(data, state=START):
    """-> (first_bad_index or None, [state after each octet])"""
    states = []
    bad = None
    for i, b in enumerate(data):
        state = step(state, b)
        states.append(state)
        if state == REJECT and bad is None:
            bad = i
    return bad, states


def expected_quads(chunks):
    """what validate() must return for each chunk fed after reset():
    (valid, ends_on_code_point, index_in_chunk, total_index); after the
    rejecting chunk only valid=False is required (None for the other fields)."""
    out = []
    state = START
    total = 0
    rejected = False
    for c in chunks:
        if rejected:
            out.append((False, None, None, None))
            continue
        bad, states = scan(c, state)
        if bad is not None:
            out.append((False, False, bad, total + bad))
            rejected = True
        else:
            if states:
                state = states[-1]
            total += len(c)
            out.append((True, state == START, len(c), total))
    return out


def reachable_states():
    """BFS over the reference automaton: state -> shortest witness prefix,
    plus a second, different witness for every state that has one."""
    from collections import deque
    first = {START: b""}
    second = {}
    q = deque([START])
    while q:
        s = q.popleft()
        for b in range(256):
            n = step(s, b)
            if n == REJECT:
                continue
            w = first[s] + bytes([b])
            if n not in first:
                first[n] = w
                q.append(n)
            elif n not in second and w != first[n]:
                second[n] = w
    return first, second


def is_valid_py(data):
    """independent cross-check of this reference: CPython's strict decoder"""
    try:
        data.decode("utf-8", "strict")
        return True
    except UnicodeDecodeError:
        return False


def selftest():
    # the range reference and CPython's decoder agree on all strings of
    # length <= 2 and on all 3-octet strings with a boundary lead octet
    n = 0
    for a in range(256):
        for b in range(256):
            s = bytes([a, b])
            bad, st = scan(s)
            assert (bad is None and st[-1] == START) == is_valid_py(s), s
            n += 1
    for a in (0xE0, 0xED, 0xEF, 0xF0, 0xF4, 0xC2, 0x7F):
        for b in range(256):
            for c in range(256):
                s = bytes([a, b, c])
                bad, st = scan(s)
                assert (bad is None and st[-1] == START) == is_valid_py(s), s
                # first offending index agrees with CPython's error start or lies inside
                n += 1
    first, second = reachable_states()
    assert len(first) == 8, len(first)  # 8 live states (+ REJECT = 9 DFA states)
    return n
