"""
RFC 6455 section 5 framing, reference encoder / parser, written from the RFC.
No autobahn imports.  The encoder can produce every ill-formed variant; the
parser judges a *sender's* octet stream (well-formedness of what was written).
"""
import struct
import zlib

OP_CONT, OP_TEXT, OP_BIN, OP_CLOSE, OP_PING, OP_PONG = 0, 1, 2, 8, 9, 10


def xor(key, data, offset=0):
    if not data:
        return b""
    k = (key * 2)[offset & 3:][:4]
    n = len(data)
    kk = (k * (n // 4 + 1))[:n]
    return (int.from_bytes(data, "big") ^ int.from_bytes(kk, "big")).to_bytes(n, "big")


def encode(opcode, payload=b"", fin=True, rsv=0, mask=None, length_form=None,
           declared_len=None, withhold_payload=False):
    """length_form: None = minimal, 7/16/64 = force that encoding of the length.
    declared_len: length announced in the header (default len(payload)).
    mask: 4-octet key or None.  withhold_payload: header only."""
    n = len(payload) if declared_len is None else declared_len
    b0 = (0x80 if fin else 0) | ((rsv & 7) << 4) | (opcode & 0x0F)
    if length_form is None:
        length_form = 7 if n <= 125 else (16 if n <= 0xFFFF else 64)
    b1 = 0x80 if mask is not None else 0
    if length_form == 7:
        assert n <= 127
        hdr = bytes([b0, b1 | n])
    elif length_form == 16:
        hdr = bytes([b0, b1 | 126]) + struct.pack("!H", n)
    else:
        hdr = bytes([b0, b1 | 127]) + struct.pack("!Q", n)
    if mask is not None:
        hdr += mask
        body = xor(mask, payload)
    else:
        body = payload
    if withhold_payload:
        return hdr
    return hdr + body


def close_payload(code=None, reason=b""):
    if code is None:
        return b""
    return struct.pack("!H", code) + reason


class Frame:
    __slots__ = ("fin", "rsv", "opcode", "masked", "key", "payload", "length", "length_form",
                 "start", "end", "header_len")

    def __repr__(self):
        return "Frame(fin=%d rsv=%d op=%d masked=%d len=%d)" % (
            self.fin, self.rsv, self.opcode, self.masked, self.length)

    def brief(self):
        return {"fin": int(self.fin), "rsv": self.rsv, "op": self.opcode,
                "masked": int(self.masked), "len": self.length}


def parse_frames(data):
    """split an octet string into frames -> (frames, rest_offset).  Purely
    syntactic; payloads are unmasked."""
    frames = []
    i = 0
    n = len(data)
    while True:
        if n - i < 2:
            break
        b0, b1 = data[i], data[i + 1]
        f = Frame()
        f.start = i
        f.fin = bool(b0 & 0x80)
        f.rsv = (b0 >> 4) & 7
        f.opcode = b0 & 0x0F
        f.masked = bool(b1 & 0x80)
        l7 = b1 & 0x7F
        j = i + 2
        if l7 < 126:
            length, f.length_form = l7, 7
        elif l7 == 126:
            if n - j < 2:
                break
            length, f.length_form = struct.unpack("!H", data[j:j + 2])[0], 16
            j += 2
        else:
            if n - j < 8:
                break
            length, f.length_form = struct.unpack("!Q", data[j:j + 8])[0], 64
            j += 8
        if f.masked:
            if n - j < 4:
                break
            f.key = bytes(data[j:j + 4])
            j += 4
        else:
            f.key = None
        if n - j < length:
            break
        f.header_len = j - i
        raw = bytes(data[j:j + length])
        f.payload = xor(f.key, raw) if f.masked else raw
        f.length = length
        f.end = j + length
        frames.append(f)
        i = f.end
    return frames, i


def check_sender_stream(data, sender_is_client, rsv1_negotiated=False, expect_masked=None,
                        inflate=None, complete=True):
    """Judge what an endpoint wrote.  Returns (errors, messages, controls, frames):
    messages = [(payload, is_binary, compressed)] reassembled data messages,
    controls = [(opcode, payload, index_in_frame_sequence)].
    `inflate(payload)` decompresses a complete RSV1 message (None: keep raw).
    Rules (RFC 6455 5.2-5.5): minimal length encoding; control frames <=125 and
    FIN; opcode known; continuation only inside a message, no new data frame
    inside one; RSV only as negotiated (RSV1 on the first frame of a message
    only); client frames masked, server frames not (unless expect_masked
    overrides)."""
    errors = []
    frames, used = parse_frames(data)
    if complete and used != len(data):
        errors.append("trailing octets that do not form a complete frame: %d" % (len(data) - used))
    if expect_masked is None:
        expect_masked = sender_is_client
    messages = []
    controls = []
    cur = None  # [opcode, [payloads], compressed]
    keys = []
    for idx, f in enumerate(frames):
        want_form = 7 if f.length <= 125 else (16 if f.length <= 0xFFFF else 64)
        if f.length_form != want_form:
            errors.append("frame %d: non-minimal length encoding" % idx)
        if f.length_form == 64 and f.length > 0x7FFFFFFFFFFFFFFF:
            errors.append("frame %d: length > 2^63" % idx)
        if f.masked != expect_masked:
            errors.append("frame %d: mask bit %d, expected %d" % (idx, f.masked, expect_masked))
        if f.masked:
            keys.append(f.key)
        if f.opcode >= 8:
            if f.opcode not in (8, 9, 10):
                errors.append("frame %d: reserved control opcode %d" % (idx, f.opcode))
            if not f.fin:
                errors.append("frame %d: fragmented control frame" % idx)
            if f.length > 125:
                errors.append("frame %d: control frame > 125" % idx)
            if f.rsv:
                errors.append("frame %d: RSV set on control frame" % idx)
            controls.append((f.opcode, f.payload, idx))
            continue
        if f.opcode not in (0, 1, 2):
            errors.append("frame %d: reserved data opcode %d" % (idx, f.opcode))
            continue
        if f.opcode == 0:
            if cur is None:
                errors.append("frame %d: continuation outside message" % idx)
                continue
            if f.rsv:
                errors.append("frame %d: RSV set on continuation frame" % idx)
            cur[1].append(f.payload)
        else:
            if cur is not None:
                errors.append("frame %d: new data frame inside fragmented message" % idx)
            comp = False
            if f.rsv:
                if f.rsv == 4 and rsv1_negotiated:
                    comp = True
                else:
                    errors.append("frame %d: RSV=%d not negotiated" % (idx, f.rsv))
            cur = [f.opcode, [f.payload], comp]
        if f.fin and cur is not None:
            payload = b"".join(cur[1])
            if cur[2] and inflate is not None:
                try:
                    payload = inflate(payload)
                except Exception as e:  # noqa
                    errors.append("frame %d: compressed message does not inflate: %r" % (idx, e))
            messages.append((payload, cur[0] == OP_BIN, cur[2]))
            cur = None
    if complete and cur is not None:
        errors.append("stream ends inside a fragmented message")
    return errors, messages, controls, frames


class Inflater:
    """independent permessage-deflate decompressor (RFC 7692 7.2.2) with or
    without context takeover, using zlib directly"""

    def __init__(self, window_bits=15, no_context_takeover=False):
        self.wbits = window_bits
        self.nct = no_context_takeover
        self.d = None

    def __call__(self, payload):
        if self.d is None or self.nct:
            self.d = zlib.decompressobj(-self.wbits)
        return self.d.decompress(payload + b"\x00\x00\xff\xff")


# close codes that may legally appear on the wire in a close frame (RFC 6455 7.4)
def close_code_wire_legal(code):
    if code in (1000, 1001, 1002, 1003, 1007, 1008, 1009, 1010, 1011, 1012, 1013, 1014):
        return True
    return 3000 <= code <= 4999


def close_code_acceptable_from_peer(code):
    """must-accept / must-reject / either for a received close code.
    RFC 6455 7.4.1/7.4.2: 0-999 not used; 1004,1005,1006,1015 must not be sent;
    1016-2999 reserved for the protocol (undefined ones: implementations reject);
    3000-4999 valid; >=5000 undefined."""
    if code < 1000:
        return "reject"
    if code in (1004, 1005, 1006, 1015):
        return "reject"
    if code in (1000, 1001, 1002, 1003, 1007, 1008, 1009, 1010, 1011):
        return "accept"
    if code in (1012, 1013, 1014):
        return "either"   # registered later with IANA
    if 1016 <= code <= 2999:
        return "reject"
    if 3000 <= code <= 4999:
        return "accept"
    return "reject"
