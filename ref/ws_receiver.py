"""
Reference receiver for RFC 6455 section 5 (+ RFC 7692 RSV1 rules), written
from the RFCs.  Given the receiver's context and the complete octet stream
received after the opening handshake, yields what must be delivered and where
the connection must be failed.

judge(stream, ctx) -> Verdict
  .events   [('msg', payload, is_binary) | ('ping', p) | ('pong', p) | ('close', code, reason_bytes)]
            in order, for the well-formed prefix
  .fail     None | dict(status={1002}|{1007}|{1002,1007}, earliest=off, latest=off, why=str)
            earliest: offset (exclusive end) of the stream prefix from which the violation is
            determinable; latest: offset by which the failure MUST have been signalled (end of
            the offending header for header violations, end of the offending frame otherwise)
  .closed   True if a valid close frame ended the judged stream
  .consumed offset up to which complete frames were judged
ctx keys: server (receiver is server), compress (RSV1 negotiated), require_mask (bool:
  enforce 'client frames masked / server frames unmasked'), utf8 (validate text), inflate
  (callable for RSV1 messages)
"""
import struct

from . import utf8 as U
from .ws_frames import xor, close_code_acceptable_from_peer


class Verdict:
    def __init__(self):
        self.events = []
        self.fail = None
        self.closed = False
        self.consumed = 0
        self.incomplete = False
        self.open_message = None  # None | 'text' | 'binary' at end of the judged stream

    def brief(self):
        return {"events": [(e[0],) + tuple(x.hex() if isinstance(x, bytes) else x for x in e[1:])
                           for e in self.events],
                "fail": None if self.fail is None else
                {"status": sorted(self.fail["status"]), "why": self.fail["why"],
                 "earliest": self.fail["earliest"], "latest": self.fail["latest"]},
                "closed": self.closed}


def judge(stream, ctx):
    v = Verdict()
    server = ctx["server"]
    compress = ctx.get("compress", False)
    require_mask = ctx.get("require_mask", True)
    check_utf8 = ctx.get("utf8", True)
    inflate = ctx.get("inflate")
    n = len(stream)
    i = 0
    msg = None  # dict(binary, parts, compressed, ustate, ubad)

    def fail(status, earliest, latest, why):
        v.fail = {"status": set(status), "earliest": earliest, "latest": latest, "why": why}
        return v

    while True:
        v.consumed = i
        v.open_message = None if msg is None else ("binary" if msg["binary"] else "text")
        if n - i < 2:
            v.incomplete = n - i > 0
            return v
        b0, b1 = stream[i], stream[i + 1]
        fin = bool(b0 & 0x80)
        rsv = (b0 >> 4) & 7
        op = b0 & 0x0F
        masked = bool(b1 & 0x80)
        l7 = b1 & 0x7F
        hdr_len = 2 + (0 if l7 < 126 else 2 if l7 == 126 else 8) + (4 if masked else 0)
        hdr_end = i + hdr_len
        two = i + 2
        # ---- violations determinable from the first two octets
        if rsv != 0 and not (compress and rsv == 4):
            return fail({1002}, two, hdr_end, "RSV=%d without negotiated extension" % rsv)
        if require_mask:
            if server and not masked:
                return fail({1002}, two, hdr_end, "unmasked client-to-server frame")
            if not server and masked:
                return fail({1002}, two, hdr_end, "masked server-to-client frame")
        if op >= 8:
            if not fin:
                return fail({1002}, two, hdr_end, "fragmented control frame")
            if l7 > 125:
                return fail({1002}, two, hdr_end, "control frame payload > 125")
            if op not in (8, 9, 10):
                return fail({1002}, two, hdr_end, "reserved control opcode %d" % op)
            if op == 8 and l7 == 1:
                return fail({1002}, two, i + hdr_len + 1, "close frame with 1-octet payload")
            if rsv == 4:
                return fail({1002}, two, hdr_end, "compressed control frame")
        else:
            if op not in (0, 1, 2):
                return fail({1002}, two, hdr_end, "reserved data opcode %d" % op)
            if op == 0 and msg is None:
                return fail({1002}, two, hdr_end, "continuation outside a fragmented message")
            if op != 0 and msg is not None:
                return fail({1002}, two, hdr_end, "new data frame inside a fragmented message")
            if op == 0 and rsv == 4:
                return fail({1002}, two, hdr_end, "RSV1 on continuation frame")
        # ---- extended length
        j = i + 2
        if l7 < 126:
            length = l7
        elif l7 == 126:
            if n - j < 2:
                v.incomplete = True
                return v
            length = struct.unpack("!H", stream[j:j + 2])[0]
            j += 2
            if length < 126:
                return fail({1002}, j, hdr_end, "non-minimal 16-bit length %d" % length)
        else:
            if n - j < 8:
                v.incomplete = True
                return v
            length = struct.unpack("!Q", stream[j:j + 8])[0]
            j += 8
            if length > 0x7FFFFFFFFFFFFFFF:
                return fail({1002}, j, hdr_end, "64-bit length with MSB set")
            if length < 65536:
                return fail({1002}, j, hdr_end, "non-minimal 64-bit length %d" % length)
        key = None
        if masked:
            if n - j < 4:
                v.incomplete = True
                return v
            key = bytes(stream[j:j + 4])
            j += 4
        avail = min(length, n - j)
        raw = bytes(stream[j:j + avail])
        payload = xor(key, raw) if key is not None else raw
        complete = avail == length
        end = j + length
        # ---- payload-level rules
        if op in (0, 1, 2):
            if op != 0:
                msg = {"binary": op == 2, "parts": [], "compressed": rsv == 4,
                       "ustate": U.START, "start": i}
            text = not msg["binary"]
            if text and check_utf8 and not msg["compressed"]:
                bad, states = U.scan(payload, msg["ustate"])
                if bad is not None:
                    return fail({1007}, j + bad + 1, end, "invalid UTF-8 in text message")
                if states:
                    msg["ustate"] = states[-1]
            if not complete:
                v.incomplete = True
                v.open_message = "binary" if msg["binary"] else "text"
                return v
            msg["parts"].append(payload)
            if fin:
                data = b"".join(msg["parts"])
                if msg["compressed"]:
                    data = inflate(data)
                    if text and check_utf8:
                        bad, states = U.scan(data)
                        if bad is not None or (states and states[-1] != U.START):
                            return fail({1007}, msg["start"] + 2, end,
                                        "invalid UTF-8 in compressed text message")
                elif text and check_utf8 and msg["ustate"] != U.START:
                    return fail({1007}, end, end, "text message ends inside a code point")
                v.events.append(("msg", data, msg["binary"]))
                msg = None
        else:
            if not complete:
                v.incomplete = True
                return v
            if op == 9:
                v.events.append(("ping", payload))
            elif op == 10:
                v.events.append(("pong", payload))
            else:
                code = None
                reason = b""
                if length >= 2:
                    code = struct.unpack("!H", payload[:2])[0]
                    reason = payload[2:]
                    status = set()
                    acc = close_code_acceptable_from_peer(code)
                    if acc == "reject":
                        status.add(1002)
                    bad, states = U.scan(reason)
                    if bad is not None or (states and states[-1] != U.START):
                        status.add(1007)
                    if status:
                        return fail(status, end, end, "close frame: code %d / reason %r" % (
                            code, reason[:20]))
                    if acc == "either":
                        v.events.append(("close?", code, reason))
                        v.closed = True
                        v.consumed = end
                        return v
                v.events.append(("close", code, reason))
                v.closed = True
                v.consumed = end
                return v
        i = end
