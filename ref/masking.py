"""RFC 6455 5.3 masking, reference: byte i of the stream is XORed with key[i mod 4]."""


def xor(key, data, offset=0):
    return bytes(b ^ key[(offset + i) & 3] for i, b in enumerate(data))
