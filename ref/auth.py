"""
Independent verifiers for the WAMP authentication methods (property C19).

Nothing here imports autobahn.  Everything is written from the standards:

* WAMP-CRA          WAMP spec (advanced profile): signature = base64(HMAC-SHA256(key, challenge)),
                    key = secret, or base64(PBKDF2-HMAC-SHA256(secret, salt, iterations, keylen))
                    when the CHALLENGE carries a salt.  PBKDF2: hashlib, plus RFC 8018 by the book.
* TOTP              RFC 4226 (HOTP, dynamic truncation) + RFC 6238 (T = floor(t / 30)), SHA-1, 6 digits.
* WAMP-SCRAM        RFC 5802 algebra with SHA-256 (RFC 7677): server side verification from
                    StoredKey / ServerKey only.  Normalize() = SASLprep (RFC 4013) via the stdlib
                    stringprep tables.  KDFs: PBKDF2-HMAC-SHA256 (hashlib) and Argon2id v1.3
                    (argon2-cffi low level `hash_secret_raw`).
* WAMP-cryptosign   Ed25519 (RFC 8032) through `cryptography` (OpenSSL), message = challenge XOR
                    channel id ("tls-unique" binding) or the challenge alone.
"""
import base64
import binascii
import hashlib
import hmac
import stringprep
import struct
import unicodedata

# --------------------------------------------------------------------------
# small helpers
# --------------------------------------------------------------------------


def b64(b):
    return base64.b64encode(b).decode("ascii")


_B64 = "ABCDEFGHIJKLMNOPQRSTUVWXYZabcdefghijklmnopqrstuvwxyz0123456789+/"


def b64decode_strict(text):
    """RFC 4648 section 4 decoder written out: alphabet only, length a multiple
    of 4, '=' only as the final one or two characters.  Non-zero pad bits are
    tolerated (RFC 4648 3.5: a decoder MAY reject them).  -> bytes or None"""
    if isinstance(text, bytes):
        try:
            text = text.decode("ascii")
        except UnicodeDecodeError:
            return None
    if len(text) % 4:
        return None
    body = text.rstrip("=")
    pad = len(text) - len(body)
    if pad > 2:
        return None
    acc = 0
    nbits = 0
    out = bytearray()
    for ch in body:
        v = _B64.find(ch)
        if v < 0:
            return None
        acc = (acc << 6) | v
        nbits += 6
        if nbits >= 8:
            nbits -= 8
            out.append((acc >> nbits) & 0xFF)
            acc &= (1 << nbits) - 1
    return bytes(out)


def xor(a, b):
    if len(a) != len(b):
        raise ValueError("xor of unequal lengths")
    return bytes(x ^ y for x, y in zip(a, b))


def flip(data, bit):
    """single-bit alteration of a bytes value (bit 0 = LSB of octet 0)"""
    ba = bytearray(data)
    ba[bit >> 3] ^= 1 << (bit & 7)
    return bytes(ba)


def flip_text(text, bit, width=8):
    """single-bit alteration of code unit bit//width of a str"""
    i, k = divmod(bit, width)
    return text[:i] + chr(ord(text[i]) ^ (1 << k)) + text[i + 1:]


def H(b):
    return hashlib.sha256(b).digest()


def HMAC(key, msg):
    return hmac.new(key, msg, hashlib.sha256).digest()


# --------------------------------------------------------------------------
# PBKDF2 (RFC 8018 5.2), by the book and through hashlib
# --------------------------------------------------------------------------


def pbkdf2_book(password, salt, c, dklen):
    hlen = 32
    if c < 1 or dklen < 1:
        raise ValueError("bad parameters")
    blocks = -(-dklen // hlen)
    out = b""
    for i in range(1, blocks + 1):
        u = HMAC(password, salt + struct.pack(">I", i))
        t = int.from_bytes(u, "big")
        for _ in range(c - 1):
            u = HMAC(password, u)
            t ^= int.from_bytes(u, "big")
        out += t.to_bytes(hlen, "big")
    return out[:dklen]


def pbkdf2(password, salt, c, dklen):
    return hashlib.pbkdf2_hmac("sha256", password, salt, c, dklen)


# --------------------------------------------------------------------------
# WAMP-CRA
# --------------------------------------------------------------------------


def _u8(x):
    return x.encode("utf8") if isinstance(x, str) else x


def cra_key(secret, extra):
    """secret: str|bytes; extra: CHALLENGE.Extra dict"""
    secret = _u8(secret)
    if "salt" in extra:
        raw = pbkdf2(secret, _u8(extra["salt"]), extra["iterations"], extra["keylen"])
        return base64.b64encode(raw)
    return secret


def cra_signature(secret, extra):
    """-> str, what a client has to put into AUTHENTICATE.Signature"""
    key = cra_key(secret, extra)
    return b64(HMAC(key, _u8(extra["challenge"])))


def cra_verify(secret, extra, signature):
    """server side: text comparison with the recomputed signature"""
    if isinstance(signature, bytes):
        try:
            signature = signature.decode("ascii")
        except UnicodeDecodeError:
            return False
    exp = cra_signature(secret, extra)
    return hmac.compare_digest(exp.encode("ascii"), signature.encode("utf8"))


# --------------------------------------------------------------------------
# HOTP / TOTP
# --------------------------------------------------------------------------


def hotp(key, counter, digits=6):
    """RFC 4226 5.3"""
    hs = hmac.new(key, struct.pack(">Q", counter), hashlib.sha1).digest()
    offset = hs[19] & 0x0F
    p = ((hs[offset] & 0x7F) << 24) | (hs[offset + 1] << 16) | (hs[offset + 2] << 8) | hs[offset + 3]
    return "%0*d" % (digits, p % (10 ** digits))


def totp_step(t, step=30, t0=0):
    """RFC 6238 4.2: T = floor((t - T0) / X)"""
    import math
    return int(math.floor((t - t0) / step)) if isinstance(t, float) else (t - t0) // step


def totp(key, t, offset=0, digits=6):
    return hotp(key, totp_step(t) + offset, digits)


def totp_verify(key, ticket, t, window=1):
    """validator with the look-around of RFC 6238 5.2 (one step either way)"""
    T = totp_step(t)
    return any(ticket == hotp(key, T + d) for d in range(-window, window + 1) if T + d >= 0)


RFC6238_KEY = b"12345678901234567890"
RFC6238_SHA1 = [  # Appendix B, 8 digits
    (59, "94287082"), (1111111109, "07081804"), (1111111111, "14050471"),
    (1234567890, "89005924"), (2000000000, "69279037"), (20000000000, "65353130"),
]
RFC4226_HOTP = ["755224", "287082", "359152", "969429", "338314", "254676", "287922", "162583",
                "399871", "520489"]  # Appendix D, counters 0..9


# --------------------------------------------------------------------------
# SASLprep (RFC 4013) from the RFC 3454 tables
# --------------------------------------------------------------------------


class SaslprepError(ValueError):
    pass


def saslprep(s, allow_unassigned=True):
    """allow_unassigned=True: the "query" flavour of RFC 3454 section 7 (code points unassigned in
    Unicode 3.2, e.g. emoji, pass through unchanged), which is what a password typed by a user is"""
    # 2.1 mapping
    out = []
    for ch in s:
        if stringprep.in_table_c12(ch):
            out.append(" ")
        elif stringprep.in_table_b1(ch):
            continue
        else:
            out.append(ch)
    # 2.2 normalization KC
    s = unicodedata.ucd_3_2_0.normalize("NFKC", "".join(out))
    # 2.3 prohibited output
    for ch in s:
        for tbl in (stringprep.in_table_c12, stringprep.in_table_c21, stringprep.in_table_c22,
                    stringprep.in_table_c3, stringprep.in_table_c4, stringprep.in_table_c5,
                    stringprep.in_table_c6, stringprep.in_table_c7, stringprep.in_table_c8,
                    stringprep.in_table_c9):
            if tbl(ch):
                raise SaslprepError("prohibited character U+%04X" % ord(ch))
        if not allow_unassigned and stringprep.in_table_a1(ch):
            raise SaslprepError("unassigned code point U+%04X" % ord(ch))
    # 2.4 bidi
    randal = [stringprep.in_table_d1(c) for c in s]
    if any(randal):
        if any(stringprep.in_table_d2(c) for c in s):
            raise SaslprepError("bidi: RandALCat with LCat")
        if not (randal[0] and randal[-1]):
            raise SaslprepError("bidi: RandALCat not first and last")
    return s


# --------------------------------------------------------------------------
# WAMP-SCRAM (RFC 5802 / RFC 7677 algebra)
# --------------------------------------------------------------------------

KDF_PBKDF2 = "pbkdf2"
KDF_ARGON = "argon2id-13"


def scram_salted_password(kdf, password_utf8, salt_raw, iterations, memory=None):
    """password_utf8: octets of the (already normalized) password"""
    if kdf == KDF_PBKDF2:
        # RFC 5802: SaltedPassword := Hi(Normalize(password), salt, i)
        return pbkdf2(password_utf8, salt_raw, iterations, 32)
    if kdf == KDF_ARGON:
        from argon2.low_level import Type, hash_secret_raw
        raw = hash_secret_raw(secret=password_utf8, salt=salt_raw, time_cost=iterations,
                              memory_cost=memory, parallelism=1, hash_len=32, type=Type.ID,
                              version=0x13)
        # ASSUMPTION (DESIGN.md C19): the only server side credential format that exists for
        # WAMP-SCRAM/argon2id (Crossbar.io config as produced by derive_scram_credential) keys
        # the HMACs with the unpadded base64 text of the tag, not with the raw tag.
        return base64.b64encode(raw).rstrip(b"=")
    raise ValueError("unknown kdf %r" % (kdf,))


def scram_credential(kdf, password, salt_raw, iterations, memory=None, normalize=True):
    """what a server stores (never the password): StoredKey, ServerKey + parameters"""
    pw = saslprep(password) if normalize else password
    sp = scram_salted_password(kdf, pw.encode("utf8"), salt_raw, iterations, memory)
    client_key = HMAC(sp, b"Client Key")
    return {"kdf": kdf, "salt": salt_raw, "iterations": iterations, "memory": memory,
            "stored_key": H(client_key), "server_key": HMAC(sp, b"Server Key")}


def scram_auth_message(authid, client_nonce, server_nonce, salt_b64, iterations, channel_binding=""):
    """AuthMessage := client-first-message-bare , server-first-message , client-final-without-proof
    with the WAMP-SCRAM field layout (n=,r= / r=,s=,i= / c=,r=)"""
    return ("n=%s,r=%s,r=%s,s=%s,i=%d,c=%s,r=%s" % (
        authid, client_nonce, server_nonce, salt_b64, iterations, channel_binding or "",
        server_nonce)).encode("utf8")


def scram_verify_proof(stored_key, auth_message, proof_b64):
    """server: ClientKey := ClientProof XOR HMAC(StoredKey, AuthMessage); H(ClientKey) == StoredKey"""
    proof = b64decode_strict(proof_b64)
    if proof is None or len(proof) != 32:
        return False
    client_signature = HMAC(stored_key, auth_message)
    client_key = xor(proof, client_signature)
    return hmac.compare_digest(H(client_key), stored_key)


def scram_server_signature(server_key, auth_message):
    return HMAC(server_key, auth_message)


def scram_client_proof(kdf, password, salt_raw, iterations, memory, auth_message, normalize=True):
    """client side by the book (only used for the RFC 7677 vector self test)"""
    pw = saslprep(password) if normalize else password
    sp = scram_salted_password(kdf, pw.encode("utf8"), salt_raw, iterations, memory)
    ck = HMAC(sp, b"Client Key")
    return xor(ck, HMAC(H(ck), auth_message))


RFC7677 = {  # SCRAM-SHA-256 example exchange
    "user": "user", "password": "pencil", "client_nonce": "rOprNGfwEbeRWgbNEkqO",
    "server_nonce": "rOprNGfwEbeRWgbNEkqO%hvYDpWUa2RaTCAfuxFIlj)hNlF$k0",
    "salt": "W22ZaJ0SNY7soEsUEjb6gQ==", "iterations": 4096, "channel_binding": "biws",
    "proof": "dHzbZapWIk4jUhN+Ute9ytag9zjfMHgsqmmiz7AndVQ=",
    "server_signature": "6rriTRBi23WpRR/wtup+mMhUZUn/dB5nLTJRsjl95G4=",
}


# --------------------------------------------------------------------------
# Ed25519 through `cryptography`
# --------------------------------------------------------------------------


def ed_public_from_seed(seed):
    from cryptography.hazmat.primitives.asymmetric.ed25519 import Ed25519PrivateKey
    from cryptography.hazmat.primitives import serialization as S
    return Ed25519PrivateKey.from_private_bytes(seed).public_key().public_bytes(
        S.Encoding.Raw, S.PublicFormat.Raw)


def ed_sign(seed, message):
    from cryptography.hazmat.primitives.asymmetric.ed25519 import Ed25519PrivateKey
    return Ed25519PrivateKey.from_private_bytes(seed).sign(message)


def ed_verify(pubkey, signature, message):
    from cryptography.exceptions import InvalidSignature
    from cryptography.hazmat.primitives.asymmetric.ed25519 import Ed25519PublicKey
    try:
        pk = Ed25519PublicKey.from_public_bytes(pubkey)
    except Exception:
        return False
    try:
        pk.verify(signature, message)
        return True
    except InvalidSignature:
        return False


def cryptosign_message(challenge_hex, channel_id=None):
    """what the client has to sign: 32 octet challenge, XORed with the 32 octet channel id under
    'tls-unique' channel binding"""
    c = binascii.a2b_hex(challenge_hex)
    if len(c) != 32:
        raise ValueError("challenge must be 32 octets")
    if channel_id is None:
        return c
    if len(channel_id) != 32:
        raise ValueError("channel id must be 32 octets")
    return xor(c, channel_id)


def cryptosign_verify(pubkey, challenge_hex, channel_id, signature_hex):
    """server side: AUTHENTICATE.Signature = hex(signature[64]) [ + hex(message[32]) ]; the message
    part is NOT trusted - the signature is verified over the server's own challenge/channel id."""
    try:
        raw = binascii.a2b_hex(signature_hex)
    except (binascii.Error, ValueError):
        return False
    if len(raw) not in (64, 96):
        return False
    return ed_verify(pubkey, raw[:64], cryptosign_message(challenge_hex, channel_id))


RFC8032 = [  # 7.1 TEST 1..3 (seed, public key, message, signature)
    ("9d61b19deffd5a60ba844af492ec2cc44449c5697b326919703bac031cae7f60",
     "d75a980182b10ab7d54bfed3c964073a0ee172f3daa62325af021a68f707511a", "",
     "e5564300c360ac729086e2cc806e828a84877f1eb8e5d974d873e06522490155"
     "5fb8821590a33bacc61e39701cf9b46bd25bf5f0595bbe24655141438e7a100b"),
    ("4ccd089b28ff96da9db6c346ec114e0f5b8a319f35aba624da8cf6ed4fb8a6fb",
     "3d4017c3e843895a92b70aa74d1b7ebc9c982ccf2ec4968cc0cd55f12af4660c", "72",
     "92a009a9f0d4cab8720e820b5f642540a2b27b5416503f8fb3762223ebdb69da"
     "085ac1e43e15996e458f3613d0f11d8c387b2eaeb4302aeeb00d291612bb0c00"),
    ("c5aa8df43f9f837bedb7442f31dcb7b166d38535076f094b85ce3a2e0b4458f7",
     "fc51cd8e6218a1a38da47ed00230f0580816ed13ba3303ac5deb911548908025", "af82",
     "6291d657deec24024827e69c3abe01a30ce548a284743a445e3680d7db5ac3ac"
     "18ff9b538d16f290ae67f760984dc6594a7c15e9716ed28dc027beceea1ec40a"),
]

PBKDF2_SHA256_VECTORS = [  # RFC 7914 section 11
    (b"passwd", b"salt", 1, 64,
     "55ac046e56e3089fec1691c22544b605f94185216dde0465e68b9d57c20dacbc"
     "49ca9cccf179b645991664b39d77ef317c71b845b1e30bd509112041d3a19783"),
    (b"Password", b"NaCl", 80000, 64,
     "4ddcd8f60b98be21830cee5ef22701f9641a4418d04c0414aeff08876b34ab56"
     "a1d425a1225833549adb841b51c9b3176a272bdebba1d078478f62b397f33c8d"),
]


def selftest():
    """the reference against published vectors; returns the number of vectors checked, raises
    AssertionError otherwise (a machinery error, never a verdict about autobahn)"""
    n = 0
    for pw, salt, c, dk, exp in PBKDF2_SHA256_VECTORS:
        assert pbkdf2(pw, salt, c, dk).hex() == exp, "pbkdf2 vector"
        if c <= 1000:
            assert pbkdf2_book(pw, salt, c, dk).hex() == exp, "pbkdf2 by the book"
        n += 1
    for c in (1, 2, 3, 1000):
        for dk in (1, 16, 31, 32, 33, 64, 65):
            assert pbkdf2_book(b"k" * 65, b"s", c, dk) == pbkdf2(b"k" * 65, b"s", c, dk)
            n += 1
    for counter, code in enumerate(RFC4226_HOTP):
        assert hotp(RFC6238_KEY, counter) == code, "RFC 4226 vector"
        assert totp(RFC6238_KEY, 30 * counter) == code
        n += 1
    for t, code8 in RFC6238_SHA1:
        assert hotp(RFC6238_KEY, totp_step(t), 8) == code8, "RFC 6238 vector"
        assert totp(RFC6238_KEY, t) == code8[2:]
        n += 1
    assert totp_step(29.999) == 0 and totp_step(30.0) == 1 and totp_step(59) == 1
    v = RFC7677
    am = scram_auth_message(v["user"], v["client_nonce"], v["server_nonce"], v["salt"],
                            v["iterations"], v["channel_binding"])
    salt = base64.b64decode(v["salt"])
    cred = scram_credential(KDF_PBKDF2, v["password"], salt, v["iterations"])
    assert b64(scram_client_proof(KDF_PBKDF2, v["password"], salt, v["iterations"], None, am)) == v["proof"]
    assert scram_verify_proof(cred["stored_key"], am, v["proof"])
    assert not scram_verify_proof(cred["stored_key"], am + b"x", v["proof"])
    assert b64(scram_server_signature(cred["server_key"], am)) == v["server_signature"]
    n += 3
    for seed, pub, msg, sig in RFC8032:
        seed, pub, msg, sig = (bytes.fromhex(x) for x in (seed, pub, msg, sig))
        assert ed_public_from_seed(seed) == pub
        assert ed_sign(seed, msg) == sig
        assert ed_verify(pub, sig, msg)
        assert not ed_verify(pub, flip(sig, 0), msg)
        assert not ed_verify(pub, sig, msg + b"\x00")
        n += 1
    # SASLprep: RFC 4013 section 3 examples
    assert saslprep("I\u00adX") == "IX" and saslprep("user") == "user"
    assert saslprep("USER") == "USER" and saslprep("\u00aa") == "a" and saslprep("\u2168") == "IX"
    for bad in ("\u0007", "\u0627\u0031"):
        try:
            saslprep(bad)
        except SaslprepError:
            pass
        else:
            raise AssertionError("saslprep accepted %r" % bad)
    n += 7
    for raw in (b"", b"a", b"ab", b"abc", bytes(range(32)), bytes(range(33))):
        assert b64decode_strict(b64(raw)) == raw
    for bad in ("A", "AA", "AAA", "A===", "AA=A", "AAAA=", "AA!A", "QUJD\n", "=AAA"):
        assert b64decode_strict(bad) is None, bad
    n += 15
    return n
