"""
Independent reference models of a WAMP client session (no autobahn import; written
from the WAMP basic/advanced profile text and the property statements C04, C06, C11).

* IdGen            sequential request ids 1,2,3,... wrapping from 2**53 back to 1
* wire forms       what each client request looks like as a WAMP list
* RequestModel     C04: pending-request tables, reply correlation
* SubscriptionModel C11: subscription id -> ordered handler list, EVENT fan-out
* Lifecycle        C06: session life-cycle monitor

Where the statements leave latitude the answer is three-valued: 'must', 'never',
'either'.
"""
MAXID = 2 ** 53

HELLO, WELCOME, ABORT, CHALLENGE, AUTHENTICATE, GOODBYE, ERROR = 1, 2, 3, 4, 5, 6, 8
PUBLISH, PUBLISHED = 16, 17
SUBSCRIBE, SUBSCRIBED, UNSUBSCRIBE, UNSUBSCRIBED, EVENT = 32, 33, 34, 35, 36
CALL, CANCEL, RESULT = 48, 49, 50
REGISTER, REGISTERED, UNREGISTER, UNREGISTERED, INVOCATION, INTERRUPT, YIELD = 64, 65, 66, 67, 68, 69, 70

KINDS = ("call", "publish", "subscribe", "unsubscribe", "register", "unregister")
REQ_CODE = {"call": CALL, "publish": PUBLISH, "subscribe": SUBSCRIBE, "unsubscribe": UNSUBSCRIBE,
            "register": REGISTER, "unregister": UNREGISTER}
REPLY_CODE = {"call": RESULT, "publish": PUBLISHED, "subscribe": SUBSCRIBED,
              "unsubscribe": UNSUBSCRIBED, "register": REGISTERED, "unregister": UNREGISTERED}
KIND_OF_REPLY = {v: k for k, v in REPLY_CODE.items()}
KIND_OF_REQ = {v: k for k, v in REQ_CODE.items()}


class IdGen:
    """request ids: sequential from 1 within a session, always within 1..2**53"""

    def __init__(self, last=0):
        self.last = last

    def next(self):
        self.last = 1 if self.last >= MAXID else self.last + 1
        return self.last


def tail(args, kwargs):
    """Arguments|list and ArgumentsKw|dict: kwargs present => args present (possibly empty);
    trailing empty parts are omitted"""
    if kwargs:
        return [list(args or []), dict(kwargs)]
    if args:
        return [list(args)]
    return []


def norm_wire(w):
    """canonical form of a marshalled message for comparison (tuples -> lists)"""
    if isinstance(w, (list, tuple)):
        return [norm_wire(x) for x in w]
    if isinstance(w, dict):
        return {k: norm_wire(v) for k, v in w.items()}
    return w


def same_wire(got, exp):
    """equality up to omitted-vs-empty trailing payload ([..] == [.., []] == [.., [], {}])"""
    g, e = norm_wire(got), norm_wire(exp)

    def strip(x):
        x = list(x)
        while x and x[-1] in ([], {}, None) and len(x) > 3:
            x.pop()
        return x
    return strip(g) == strip(e)


# ---------------------------------------------------------------------------------------
# C04
# ---------------------------------------------------------------------------------------
class RequestModel:
    """what a joined session must do for API calls and router replies.

    api(kind, ...) -> (label or None, expected request message as WAMP list)
    reply(...)     -> verdict dict:
        {'v': 'complete', 'label': L, 'content': (...)}   exactly future L completes, with content
        {'v': 'progress', 'label': L, 'args': [...], 'kwargs': {...}}   only L's progress handler fires
        {'v': 'violation'}        matches no pending request: protocol violation, nothing touched
        {'v': 'unspecified'}      router behaviour outside the statement (e.g. progressive result
                                  for a call that did not ask for it): no future of ANOTHER request
                                  may be touched, nothing else is demanded
    """

    def __init__(self, idseed=0):
        self.ids = IdGen(idseed)
        self.pending = {k: {} for k in KINDS}
        self.completed = {}        # label -> content
        self.labels = []           # every label in issue order, with kind
        self.subs = {}             # subscription id -> label of the subscribe that got it
        self.regs = {}
        self.racing = set()        # subscription ids: handler removed, UNSUBSCRIBE outstanding
        self.released = set()      # subscription ids once held, now released (or release refused)
        self.issued = []           # request ids in order

    def outstanding(self):
        return sum(len(t) for t in self.pending.values())

    def api(self, kind, uri=None, args=None, kwargs=None, progress=False, details=False,
            acknowledge=False, options=None, target=None):
        rid = self.ids.next()
        self.issued.append(rid)
        opts = dict(options or {})
        label = "%s#%d" % (kind, len(self.labels))
        rec = {"kind": kind, "label": label, "id": rid, "uri": uri, "progress": progress,
               "details": details, "target": target}
        if kind == "call":
            if progress:
                opts["receive_progress"] = True
            wire = [CALL, rid, opts, uri] + tail(args, kwargs)
        elif kind == "publish":
            if acknowledge:
                opts["acknowledge"] = True
            wire = [PUBLISH, rid, opts, uri] + tail(args, kwargs)
            if not acknowledge:
                # no reply expected, nothing returned
                self.labels.append((None, "publish-noack"))
                return None, wire
        elif kind == "subscribe":
            wire = [SUBSCRIBE, rid, opts, uri]
        elif kind == "register":
            wire = [REGISTER, rid, opts, uri]
        elif kind == "unsubscribe":
            wire = [UNSUBSCRIBE, rid, target]
            # the handler is detached at once; events racing with the UNSUBSCRIBE are dropped
            self.subs.pop(target, None)
            self.racing.add(target)
        elif kind == "unregister":
            wire = [UNREGISTER, rid, target]
        else:
            raise ValueError(kind)
        self.pending[kind][rid] = rec
        self.labels.append((label, kind))
        return label, wire

    def _complete(self, kind, rid, content):
        rec = self.pending[kind].pop(rid)
        self.completed[rec["label"]] = content
        return {"v": "complete", "label": rec["label"], "content": content, "rec": rec}

    def reply(self, code, rid, req_type=None, args=None, kwargs=None, progress=False,
              error=None, ident=None):
        args = list(args or [])
        kwargs = dict(kwargs or {})
        if code == ERROR:
            kind = KIND_OF_REQ.get(req_type)
            if kind is None or rid not in self.pending[kind]:
                return {"v": "violation"}
            if kind == "unsubscribe":
                # the router refused; locally the handler is detached already
                t = self.pending[kind][rid]["target"]
                self.racing.discard(t)
                self.released.add(t)
            return self._complete(kind, rid, ("error", error, args, kwargs))
        kind = KIND_OF_REPLY.get(code)
        if kind is None or rid not in self.pending[kind]:
            return {"v": "violation"}
        rec = self.pending[kind][rid]
        if kind == "call":
            if progress:
                if rec["progress"]:
                    return {"v": "progress", "label": rec["label"], "args": args, "kwargs": kwargs,
                            "details": rec["details"]}
                return {"v": "unspecified", "label": rec["label"]}
            return self._complete(kind, rid, ("result", args, kwargs, rec["details"]))
        if kind == "publish":
            return self._complete(kind, rid, ("publication", ident))
        if kind == "subscribe":
            self.subs[ident] = rec["label"]
            return self._complete(kind, rid, ("subscription", ident, rec["uri"]))
        if kind == "register":
            self.regs[ident] = rec["label"]
            return self._complete(kind, rid, ("registration", ident, rec["uri"]))
        if kind == "unsubscribe":
            self.racing.discard(rec["target"])
            self.released.add(rec["target"])
            return self._complete(kind, rid, ("done",))
        if kind == "unregister":
            self.regs.pop(rec["target"], None)
            return self._complete(kind, rid, ("done",))
        raise AssertionError(kind)

    def event(self, subid):
        if subid in self.subs:
            return {"v": "deliver"}
        if subid in self.racing:
            return {"v": "drop"}
        if subid in self.released:
            return {"v": "either"}
        return {"v": "violation"}

    def invocation(self, regid):
        return {"v": "invoke"} if regid in self.regs else {"v": "violation"}


# ---------------------------------------------------------------------------------------
# C11
# ---------------------------------------------------------------------------------------
class SubscriptionModel:
    """subscription id -> ordered list of handler keys, as the statement of C11 reads.

    id states: 'held' (>= 1 handler or an UNSUBSCRIBE failed), 'racing' (last handler
    removed, UNSUBSCRIBE sent, reply outstanding), 'gone' (UNSUBSCRIBED received),
    'ambiguous' (SUBSCRIBED for an id in state racing: a router that handles requests in
    order cannot produce this, nothing is demanded for that id any more)"""

    def __init__(self):
        self.ids = IdGen()
        self.pend_sub = {}      # request id -> (hkey, topic)
        self.pend_unsub = {}    # request id -> subscription id
        self.table = {}         # subscription id -> [hkey]
        self.state = {}         # subscription id -> held|racing|gone|ambiguous
        self.where = {}         # hkey -> subscription id (attached handlers only)
        self.topic = {}         # subscription id -> topic
        self.removed = set()    # hkeys that were unsubscribed (never to be invoked again)

    def subscribe(self, hkey, topic, options=None):
        rid = self.ids.next()
        self.pend_sub[rid] = (hkey, topic)
        return rid, [SUBSCRIBE, rid, dict(options or {}), topic]

    def subscribed(self, rid, subid):
        if rid not in self.pend_sub:
            return {"v": "violation"}
        hkey, topic = self.pend_sub.pop(rid)
        st = self.state.get(subid)
        if st == "racing" or st == "ambiguous":
            self.state[subid] = "ambiguous"
        else:
            self.state[subid] = "held"
        self.table.setdefault(subid, []).append(hkey)
        self.where[hkey] = subid
        self.topic[subid] = topic
        return {"v": "attach", "hkey": hkey, "subid": subid, "topic": topic}

    def sub_error(self, rid):
        if rid not in self.pend_sub:
            return {"v": "violation"}
        hkey, _ = self.pend_sub.pop(rid)
        return {"v": "failed", "hkey": hkey}

    def unsubscribe(self, hkey):
        """-> (request id or None, expected UNSUBSCRIBE or None)"""
        subid = self.where.pop(hkey)
        self.table[subid].remove(hkey)
        self.removed.add(hkey)
        if not self.table[subid]:
            rid = self.ids.next()
            self.pend_unsub[rid] = subid
            if self.state[subid] != "ambiguous":
                self.state[subid] = "racing"
            return rid, [UNSUBSCRIBE, rid, subid]
        return None, None

    def unsubscribed(self, rid):
        if rid not in self.pend_unsub:
            return {"v": "violation"}
        subid = self.pend_unsub.pop(rid)
        if self.table.get(subid):
            # handlers attached after the UNSUBSCRIBE went out: router and client views differ
            self.state[subid] = "ambiguous"
        elif self.state[subid] != "ambiguous":
            self.state[subid] = "gone"
        return {"v": "done", "subid": subid}

    def unsub_error(self, rid):
        if rid not in self.pend_unsub:
            return {"v": "violation"}
        subid = self.pend_unsub.pop(rid)
        if self.state[subid] == "racing":
            self.state[subid] = "held"      # the router still has us subscribed, no handler left
        return {"v": "failed", "subid": subid}

    def event(self, subid):
        """-> {'v': 'deliver', 'handlers': [...]} | 'drop' | 'violation' | 'either' | 'ambiguous'"""
        st = self.state.get(subid)
        if st is None:
            return {"v": "violation"}
        if st == "ambiguous":
            return {"v": "ambiguous", "handlers": list(self.table.get(subid, []))}
        if st == "gone":
            return {"v": "either"}            # once held, now released: drop or violation
        if st == "racing":
            return {"v": "drop"}
        hs = list(self.table[subid])
        if not hs:
            # UNSUBSCRIBE was refused: the session still holds the subscription (the router keeps
            # sending), there is just no handler to call - not an id "the session never held"
            return {"v": "drop"}
        return {"v": "deliver", "handlers": hs}


# ---------------------------------------------------------------------------------------
# C06
# ---------------------------------------------------------------------------------------
class Lifecycle:
    """monitor of one transport connection of a client session.

    phases: 'hello' (HELLO sent, nothing established), 'auth' (CHALLENGE answered),
    'established', 'closing' (we sent GOODBYE), 'over' (session ended or was refused,
    transport still there), 'gone' (transport lost)

    Every method returns an expectation dict:
      raise   : 'protocol' | None            what must leave onMessage
      cb_must : [names]  callbacks that must newly occur, in this order
      cb_may  : [names]  callbacks that may additionally occur
      send_must / send_may : message codes newly sent
      close_must / close_may : the session asks the transport to close
    Callbacks whose completion is deferred by the user report back through cb_done()."""

    def __init__(self, auth=False):
        self.auth = auth
        self.phase = "hello"
        self.goodbye_sent = False
        self.goodbyes = 0
        self.ever_joined = False
        self.leave_fired = False
        self.waiting = {}         # callback name -> continuation tag
        self.pending_reqs = False

    def _exp(self, **kw):
        e = {"raise": None, "cb_must": [], "cb_may": [], "send_must": [], "send_may": [],
             "close_must": False, "close_may": False, "fail_pending": False}
        e.update(kw)
        return e

    def legal_router(self):
        """router messages a conformant router may send now"""
        if self.phase == "hello":
            return ["WELCOME", "ABORT"] + (["CHALLENGE"] if self.auth else [])
        if self.phase == "auth":
            return ["WELCOME", "ABORT", "CHALLENGE"]
        if self.phase == "established":
            return ["GOODBYE"]
        if self.phase == "closing":
            return ["GOODBYE"]
        return []

    def established(self):
        return self.phase in ("established", "closing")

    def pre(self):
        return self.phase in ("hello", "auth")

    # --- router messages ----------------------------------------------------------------
    def router(self, name, behaviour=None):
        """behaviour: how the user callback triggered by this message behaves
        (return|raise|deny|pending)"""
        if "onWelcome" in self.waiting or "onChallenge" in self.waiting:
            # the router does not speak while we owe it an answer, except it may give up
            pass
        if self.pre():
            if name == "WELCOME":
                if behaviour == "pending":
                    self.waiting["onWelcome"] = True
                    return self._exp(cb_must=["onWelcome"])
                return self._welcome_done(behaviour, first=True)
            if name == "ABORT":
                self.phase = "over"
                self.leave_fired = True
                if behaviour == "pending":
                    self.waiting["onLeave"] = True
                return self._exp(cb_must=["onLeave"], close_may=True, fail_pending=True)
            if name == "CHALLENGE":
                if behaviour == "pending":
                    self.waiting["onChallenge"] = True
                    return self._exp(cb_must=["onChallenge"])
                return self._challenge_done(behaviour, first=True)
            return self._exp(**{"raise": "protocol"})
        if self.established():
            if name == "GOODBYE":
                must = [] if self.goodbye_sent else [GOODBYE]
                if not self.goodbye_sent:
                    self.goodbyes += 1
                self.phase = "over"
                self.leave_fired = True
                if behaviour == "pending":
                    self.waiting["onLeave"] = True
                return self._exp(cb_must=["onLeave"], send_must=must, close_may=True,
                                 fail_pending=True)
            if name in ("HELLO", "WELCOME", "ABORT", "CHALLENGE", "AUTHENTICATE"):
                # the five handshake messages are illegal once the session is established
                return self._exp(**{"raise": "protocol"})
        return None       # not in the enumerated alphabet in this phase

    def _welcome_done(self, behaviour, first):
        cb = ["onWelcome"] if first else []
        if behaviour in ("deny", "raise"):
            self.phase = "over"
            return self._exp(cb_must=cb, send_must=[ABORT], close_may=True)
        self.phase = "established"
        self.ever_joined = True
        return self._exp(cb_must=cb + ["onJoin"])

    def _challenge_done(self, behaviour, first):
        cb = ["onChallenge"] if first else []
        if behaviour == "raise":
            self.phase = "over"
            # the locally generated ABORT may be reported through onLeave (DESIGN C06)
            return self._exp(cb_must=cb, cb_may=["onLeave"], send_must=[ABORT], close_may=True,
                             fail_pending=False)
        self.phase = "auth"
        return self._exp(cb_must=cb, send_must=[AUTHENTICATE])

    def cb_done(self, name, how):
        """a user callback that returned a pending result has now completed"""
        self.waiting.pop(name, None)
        if name == "onWelcome":
            if self.phase in ("hello", "auth"):
                return self._welcome_done("raise" if how == "raise" else "return", first=False)
            return self._exp(send_may=[ABORT], cb_may=["onJoin"], close_may=True)
        if name == "onChallenge":
            if self.phase in ("hello", "auth"):
                return self._challenge_done("raise" if how == "raise" else "return", first=False)
            return self._exp(send_may=[ABORT, AUTHENTICATE], cb_may=["onLeave"], close_may=True)
        return self._exp()          # onJoin / onLeave: nothing further is demanded

    # --- local requests -----------------------------------------------------------------
    def leave(self):
        if self.phase == "established":
            self.phase = "closing"
            self.goodbye_sent = True
            self.goodbyes += 1
            return self._exp(send_must=[GOODBYE])
        # not joined, already closing, or over: nothing may be sent; raising is tolerated
        return self._exp(api_may_raise=True)

    def disconnect(self):
        if self.phase == "gone":
            return self._exp()
        return self._exp(close_must=True)

    def lost(self):
        was = self.phase
        self.phase = "gone"
        cb = []
        if was in ("established", "closing"):
            cb.append("onLeave")
            self.leave_fired = True
        cb.append("onDisconnect")
        self.waiting.clear()
        return self._exp(cb_must=cb, fail_pending=True)


LIFE_ORDER = ("onConnect", "onJoin", "onLeave", "onDisconnect")


def order_violations(names):
    """names: the session callbacks in occurrence order (only connect/join/leave/disconnect
    are looked at) -> list of clause strings"""
    bad = []
    seq = [n for n in names if n in LIFE_ORDER]
    for n in LIFE_ORDER:
        if seq.count(n) > 1:
            bad.append("twice:" + n)
    ranks = [LIFE_ORDER.index(n) for n in seq]
    if any(a > b for a, b in zip(ranks, ranks[1:])):
        bad.append("order:" + ">".join(seq))
    if seq and "onConnect" not in seq:
        bad.append("before-connect:" + seq[0])
    elif seq and seq[0] != "onConnect":
        bad.append("before-connect:" + seq[0])
    return bad
