"""
Reference grammar of the 25 WAMP message classes (independent of autobahn).

Written from the WAMP specification (message shapes, id range 0..2^53, URI
rules "components MUST NOT contain '.', '#' or whitespace and MUST NOT be
empty, except wildcard / prefix patterns", advanced-profile options) and from
the advanced-profile/Crossbar extensions autobahn documents in its public
option classes (payload transparency enc_*, forward_for, session resumption,
x_ custom attributes).  DESIGN.md appendix B was used only as a checklist of
keys, so that a key known to one side only is noticed.

Nothing here imports autobahn, and URI checks are explicit loops (no regex).

Public API
----------
MESSAGES                 name -> Spec (type code, positions, options, counts)
CODES                    type code -> name
generate_valid(cls, tier)   [(label, wire_list)] valid messages: all subsets of
                            optional fields with boundary values
base_forms(cls)             a few maximal valid forms (mutation seeds of C08)
validate(wire)              'accept' | 'reject' | 'either'
explain(wire)               (verdict, [(path, kind, why)] must-reject reasons,
                            [(path, why)] latitude reasons)
canonical(wire)             normal form used to compare input and re-marshal()
uri_ok(value, strict, allow_empty_components, allow_last_empty, allow_none)
realm_name_ok(value, allow_eth)
attr_equiv(name, value)     normal form of a public attribute value

Three-valued verdict (C08): 'reject' exactly where the property statement
forbids acceptance (id outside 0..2^53 or not an integer, URI not a string or
violating the grammar of its position, known option/detail key with a value of
the wrong type, unknown type code, wrong element count, envelope not a list);
'accept' for spec-conformant messages made only of known keys; 'either' where
the specification leaves latitude (unknown keys, null for an option, a string
in the Arguments position which routers pass through, empty strings for free
text, combination rules of extensions).
"""
import itertools

MAX_ID = 9007199254740992  # 2**53

# ---------------------------------------------------------------------------
# URI grammar
# ---------------------------------------------------------------------------

_STRICT_CHARS = frozenset("abcdefghijklmnopqrstuvwxyz0123456789_")


def _component_chars_ok(comp, strict):
    for ch in comp:
        if strict:
            if ch not in _STRICT_CHARS:
                return False
        else:
            if ch == "." or ch == "#" or ch.isspace():
                return False
    return True


def uri_ok(value, strict=False, allow_empty_components=False, allow_last_empty=False,
           allow_none=False):
    """WAMP URI rule.  loose: components are non-empty and contain no '.', '#',
    whitespace.  strict: components match [0-9a-z_]+.  allow_empty_components:
    any component may be empty (wildcard patterns).  allow_last_empty: only the
    last component may be empty (prefix patterns).  The two allow_* flags are
    never combined by the message grammar; combining them is unspecified."""
    if value is None:
        return bool(allow_none)
    if type(value) is not str:
        return False
    comps = value.split(".")
    last = len(comps) - 1
    for i, comp in enumerate(comps):
        if comp == "":
            if allow_last_empty:
                if i != last:
                    return False
            elif allow_empty_components:
                pass
            else:
                return False
        elif not _component_chars_ok(comp, strict):
            return False
    return True


URI_MODES = {
    # name: (strict, allow_empty_components, allow_last_empty)
    "loose-nonempty": (False, False, False),
    "loose-empty": (False, True, False),
    "loose-lastempty": (False, False, True),
    "strict-nonempty": (True, False, False),
    "strict-empty": (True, True, False),
    "strict-lastempty": (True, False, True),
}

_ASCII_LETTERS = frozenset("abcdefghijklmnopqrstuvwxyzABCDEFGHIJKLMNOPQRSTUVWXYZ")
_ASCII_DIGITS = frozenset("0123456789")
_HEX = frozenset("0123456789abcdefABCDEF")


def realm_name_ok(value, allow_eth=True):
    """autobahn/Crossbar realm names: a letter followed by 2..254 of letters,
    digits, '_', '-', '@', '.'; or (allow_eth) '0x' + 40 hex digits."""
    if type(value) is not str:
        return False
    n = len(value)
    if 3 <= n <= 255 and value[0] in _ASCII_LETTERS:
        ok = True
        for ch in value[1:]:
            if not (ch in _ASCII_LETTERS or ch in _ASCII_DIGITS or ch in "_-@."):
                ok = False
                break
        if ok:
            return True
    if allow_eth and n == 42 and value[0] == "0" and value[1] == "x":
        for ch in value[2:]:
            if ch not in _HEX:
                return False
        return True
    return False


def custom_key_ok(key):
    """implementation specific attribute names: 'x_' optionally followed by a
    lower-case letter and one or more of [0-9a-z_]"""
    if type(key) is not str or not key.startswith("x_"):
        return False
    rest = key[2:]
    if rest == "":
        return True
    if len(rest) < 2 or rest[0] not in "abcdefghijklmnopqrstuvwxyz":
        return False
    return all(ch in _STRICT_CHARS for ch in rest[1:])


# ---------------------------------------------------------------------------
# value kinds: check(value) -> 'ok' | 'lax' | ('bad', kind)
# ---------------------------------------------------------------------------

OK, LAX = "ok", "lax"


def _bad(kind):
    return ("bad", kind)


def chk_id(v):
    if type(v) is not int:
        return _bad("wrong-type")
    if v < 0 or v > MAX_ID:
        return _bad("id-out-of-range")
    return OK


def chk_bool(v):
    return OK if type(v) is bool else _bad("wrong-type")


def chk_str(v):
    if type(v) is not str:
        return _bad("wrong-type")
    return LAX if v == "" else OK   # empty free text: equivalent to absence, either


def chk_str_any(v):
    return OK if type(v) is str else _bad("wrong-type")


def chk_uri(v):
    if type(v) is not str:
        return _bad("wrong-type")
    return OK if uri_ok(v) else _bad("uri-grammar")


def chk_uri_or_none(v):
    if v is None:
        return LAX        # realm auto-assignment is a router extension
    return chk_uri(v)


def chk_nonneg_int(v):
    if type(v) is not int:
        return _bad("wrong-type")
    return OK if v >= 0 else _bad("value-out-of-range")


def chk_pos_int(v):
    if type(v) is not int:
        return _bad("wrong-type")
    return OK if v >= 1 else _bad("value-out-of-range")


def chk_dict_any(v):
    """application-level dictionary (authextra): keys are not constrained"""
    if type(v) is not dict:
        return _bad("wrong-type")
    for k in v:
        if type(k) is not str:
            return LAX
    return OK


def chk_dict_strkeys(v):
    if type(v) is not dict:
        return _bad("wrong-type")
    for k in v:
        if not isinstance(k, str):
            return _bad("wrong-type")
    return OK


def chk_list_of(elem):
    def chk(v):
        if type(v) is not list:
            return _bad("wrong-type")
        worst = OK
        for e in v:
            r = elem(e)
            if r == OK:
                continue
            if r == LAX:
                worst = LAX if worst == OK else worst
            else:
                return r
        return worst
    return chk


def chk_enum(*names):
    def chk(v):
        if type(v) is not str:
            return _bad("wrong-type")
        return OK if v in names else _bad("value-out-of-range")
    return chk


def chk_forward_for(v):
    """list of {session: id, authid: str|null, authrole: str}"""
    if type(v) is not list:
        return _bad("wrong-type")
    worst = OK
    for ff in v:
        if type(ff) is not dict:
            return _bad("wrong-type")
        for key in ("session", "authid", "authrole"):
            if key not in ff:
                return _bad("wrong-type")
        r = chk_id(ff["session"])
        if r != OK:
            return r
        if not (ff["authid"] is None or type(ff["authid"]) is str):
            return _bad("wrong-type")
        if type(ff["authrole"]) is not str:
            return _bad("wrong-type")
        for key in ff:
            if key not in ("session", "authid", "authrole"):
                worst = LAX
    return worst


ENC_ALGOS = ("cryptobox", "mqtt", "xbr")
ENC_SERIALIZERS = ("json", "msgpack", "cbor", "ubjson", "flatbuffers")


def chk_enc_algo(v):
    if type(v) is not str:
        return _bad("wrong-type")
    return OK if (v in ENC_ALGOS or custom_key_ok(v)) else _bad("value-out-of-range")


def chk_enc_serializer(v):
    if type(v) is not str:
        return _bad("wrong-type")
    return OK if (v in ENC_SERIALIZERS or custom_key_ok(v)) else _bad("value-out-of-range")


CLIENT_ROLES = {
    "subscriber": ("publisher_identification", "publication_trustlevels",
                   "pattern_based_subscription", "subscription_revocation", "event_history",
                   "payload_transparency", "payload_encryption_cryptobox"),
    "publisher": ("publisher_identification", "subscriber_blackwhite_listing",
                  "publisher_exclusion", "payload_transparency",
                  "x_acknowledged_event_delivery", "payload_encryption_cryptobox"),
    "caller": ("caller_identification", "call_timeout", "call_canceling",
               "progressive_call_results", "payload_transparency",
               "payload_encryption_cryptobox"),
    "callee": ("caller_identification", "call_trustlevels", "pattern_based_registration",
               "shared_registration", "call_timeout", "call_canceling",
               "progressive_call_results", "registration_revocation", "payload_transparency",
               "payload_encryption_cryptobox"),
}
ROUTER_ROLES = {
    "broker": ("publisher_identification", "publication_trustlevels",
               "pattern_based_subscription", "session_meta_api", "subscription_meta_api",
               "subscriber_blackwhite_listing", "publisher_exclusion",
               "subscription_revocation", "event_history", "payload_transparency",
               "x_acknowledged_event_delivery", "payload_encryption_cryptobox",
               "event_retention"),
    "dealer": ("caller_identification", "call_trustlevels", "pattern_based_registration",
               "session_meta_api", "registration_meta_api", "shared_registration",
               "call_timeout", "call_canceling", "progressive_call_results",
               "registration_revocation", "payload_transparency", "testament_meta_api",
               "payload_encryption_cryptobox"),
}


def chk_roles(table):
    def chk(v):
        if type(v) is not dict:
            return _bad("wrong-type")
        if len(v) == 0:
            return _bad("value-out-of-range")     # at least one role MUST be announced
        worst = OK
        for role, rd in v.items():
            if type(role) is not str:
                return _bad("wrong-type")
            if role not in table:
                return _bad("value-out-of-range")
            if type(rd) is not dict:
                return _bad("wrong-type")
            for k in rd:
                if not isinstance(k, str):
                    return _bad("wrong-type")
                if k != "features":
                    worst = LAX
            if "features" in rd:
                feats = rd["features"]
                if type(feats) is not dict:
                    return _bad("wrong-type")
                for fk, fv in feats.items():
                    if not isinstance(fk, str):
                        return _bad("wrong-type")
                    if fk in table[role]:
                        if fv is None:
                            worst = LAX
                        elif type(fv) is not bool:
                            return _bad("wrong-type")
                    else:
                        worst = LAX          # unknown feature: ignored
        return worst
    return chk


# ---------------------------------------------------------------------------
# boundary values
# ---------------------------------------------------------------------------

V_ID = [1, 0, MAX_ID, 2 ** 31, 2 ** 32 + 1, 7919]
V_URI = ["com.example.thing1", "a", "A.é-x.0_", "wamp.error.not_authorized",
         "\U0001F600.中", "x" * 200 + ".y"]
V_URI_PREFIX = ["com.example.", "com.example", "", "a."]
V_URI_WILDCARD = ["com..thing", ".", "..a", "a..", "", "com.example.thing1"]
V_STR = ["a", "user@example.com", "ü\U0001F600\U00010000", "x" * 300, " ", "a\nb"]
V_BOOL = [True, False]
V_EXTRA = [{}, {"a": 1}, {"nested": {"k": [1, 2, {"z": None}]}, "é": "\U0001F600",
                          "bin": b"\x00\xff"}]
V_LIST_STR = [["a"], [], ["a", "b\U0001F600", "c" * 40]]
V_LIST_ID = [[1], [], [0, MAX_ID, 7]]
FF1 = {"session": 1, "authid": "a", "authrole": "r"}
FF2 = {"session": MAX_ID, "authid": None, "authrole": "ré"}
FF3 = {"session": 0, "authid": "\U0001F600", "authrole": "anonymous"}
V_FORWARD_FOR = [[FF1], [FF1, FF2], [FF3, FF1, FF2], []]
V_TIMEOUT = [1000, 0, 2 ** 31]
V_CONCURRENCY = [1, 10, 2 ** 31]
V_ENC_ALGO = ["cryptobox", "mqtt", "xbr", "x_custom1"]
V_ENC_KEY = ["key1", "é" * 10, "K" * 64]
V_ENC_SER = ["json", "msgpack", "cbor", "ubjson", "flatbuffers", "x_my_ser"]
V_PAYLOAD = [b"\x00\x01\xfe\xff" * 3, b"x", bytes(range(256)), b""]

# application payload (args / kwargs)
P_VALUES = [
    None, True, False, 0, 1, -1, MAX_ID, -MAX_ID, 2 ** 31, 2 ** 32, 1.5, -2.25, 1e300,
    0.1, 21.7, -1e-5, 3.141592653589793,      # doubles that are not exactly representable in float32
    "", "a", "é", "\U0001F600\U00010000", "a\x18b", "line\nbreak\ttab", "\"q\\",
    b"", b"\x00\xff", bytes(range(256)),
    [], {}, [1, [2, [3, [4, []]]]], {"a": {"b": {"c": [1, {"d": None}]}}},
    "x" * 70000, list(range(0, 4000, 97)), {"k%d" % i: i for i in range(20)},
    {"é\U0001F600": [b"\x01", "\U0001F600"]},
]
V_ARGS = [[1, "a"], [], [None], P_VALUES, [[b"\x00\xff", {"x": [1.5, "\U0001F600"]}]],
          [MAX_ID, -MAX_ID, 2 ** 31]]
V_KWARGS = [{"k": 1}, {}, {"é": None},
            {"p%d" % i: v for i, v in enumerate(P_VALUES)},
            {"bin": b"\x00\xff", "deep": {"x": [1.5, "\U0001F600", {"y": b""}]}}]


def _roles_values(table):
    names = sorted(table)
    out = []
    # primary: all roles with one feature each
    out.append({r: {"features": {table[r][0]: True}} for r in names})
    # every non-empty subset of roles, without features
    for n in range(1, len(names) + 1):
        for sub in itertools.combinations(names, n):
            out.append({r: {} for r in sub})
    # every feature of every role, True / False; and empty features
    out.append({r: {"features": {f: True for f in table[r]}} for r in names})
    out.append({r: {"features": {f: (i % 2 == 0) for i, f in enumerate(table[r])}}
                for r in names})
    out.append({names[0]: {"features": {}}})
    return out


V_CLIENT_ROLES = _roles_values(CLIENT_ROLES)
V_ROUTER_ROLES = _roles_values(ROUTER_ROLES)


# ---------------------------------------------------------------------------
# message table
# ---------------------------------------------------------------------------

class Opt:
    """one key of an Options/Details dictionary"""
    __slots__ = ("key", "chk", "values", "default", "required", "kind")

    def __init__(self, key, chk, values, default=None, required=False, kind=""):
        self.key = key
        self.chk = chk
        self.values = values
        self.default = default      # value equivalent to absence (spec default), or None
        self.required = required
        self.kind = kind


class Pos:
    """one positional element"""
    __slots__ = ("name", "chk", "values", "kind")

    def __init__(self, name, chk, values, kind=""):
        self.name = name
        self.chk = chk
        self.values = values
        self.kind = kind


class Spec:
    __slots__ = ("name", "code", "pos", "dict_index", "dict_name", "opts", "payload",
                 "dict_optional", "custom_keys", "pyclass", "free_dict")

    def __init__(self, name, code, pos, dict_index, dict_name, opts, payload=False,
                 dict_optional=False, custom_keys=False, pyclass=None, free_dict=False):
        self.free_dict = free_dict      # dict is free-form (CHALLENGE/AUTHENTICATE extra)
        self.name = name
        self.code = code
        self.pos = pos                  # fixed positions after the type code, incl. the dict
        self.dict_index = dict_index    # wire index of the Options/Details dict (or None)
        self.dict_name = dict_name
        self.opts = {o.key: o for o in opts}
        self.payload = payload          # [args [, kwargs]] | [payload] may follow
        self.dict_optional = dict_optional   # trailing dict may be omitted
        self.custom_keys = custom_keys
        self.pyclass = pyclass or name.title().replace("_", "")

    @property
    def min_len(self):
        n = 1 + len(self.pos)
        return n - 1 if self.dict_optional else n

    @property
    def max_len(self):
        return 1 + len(self.pos) + (2 if self.payload else 0)

    def lengths(self):
        return list(range(self.min_len, self.max_len + 1))


DICT = object()   # marker: this position is the Options/Details dictionary


def _ff():
    return Opt("forward_for", chk_forward_for, V_FORWARD_FOR, default=[], kind="forward_for")


def _enc():
    return [Opt("enc_algo", chk_enc_algo, V_ENC_ALGO, kind="enc"),
            Opt("enc_key", chk_str_any, V_ENC_KEY, kind="enc"),
            Opt("enc_serializer", chk_enc_serializer, V_ENC_SER, kind="enc")]


def _P(name, chk, values, kind=""):
    return Pos(name, chk, values, kind)


_SPECS = [
    Spec("HELLO", 1, [_P("realm", chk_uri_or_none, V_URI, "uri"), DICT], 2, "details", [
        Opt("roles", chk_roles(CLIENT_ROLES), V_CLIENT_ROLES, required=True, kind="roles"),
        Opt("authmethods", chk_list_of(chk_str_any), [["anonymous"], [], ["wampcra", "ticket",
                                                                         "cryptosign"]]),
        Opt("authid", chk_str, V_STR),
        Opt("authrole", chk_str, V_STR),
        Opt("authextra", chk_dict_any, V_EXTRA),
        Opt("resumable", chk_bool, V_BOOL),
        Opt("resume-session", chk_id, [1, MAX_ID, 7919], kind="id"),
        Opt("resume-token", chk_str, V_STR),
    ]),
    Spec("WELCOME", 2, [_P("session", chk_id, V_ID, "id"), DICT], 2, "details", [
        Opt("roles", chk_roles(ROUTER_ROLES), V_ROUTER_ROLES, required=True, kind="roles"),
        Opt("realm", chk_str, ["realm1", "com.example.realm-1", "é"]),
        Opt("authid", chk_str, V_STR),
        Opt("authrole", chk_str, V_STR),
        Opt("authmethod", chk_str, ["anonymous", "wampcra", "é"]),
        Opt("authprovider", chk_str, ["static", "dynamic", "\U0001F600"]),
        Opt("authextra", chk_dict_any, V_EXTRA[1:] + V_EXTRA[:1], default={}),
        Opt("resumed", chk_bool, V_BOOL, default=False),
        Opt("resumable", chk_bool, V_BOOL, default=False),
        Opt("resume_token", chk_str, V_STR),
    ], custom_keys=True),
    Spec("ABORT", 3, [DICT, _P("reason", chk_uri, V_URI, "uri")], 1, "details", [
        Opt("message", chk_str, V_STR),
    ]),
    Spec("CHALLENGE", 4, [_P("method", chk_str_any, ["wampcra", "ticket", "", "é"]), DICT],
         2, "extra", [], free_dict=True),
    Spec("AUTHENTICATE", 5, [_P("signature", chk_str_any, ["c2lnbmF0dXJl", "", "\U0001F600",
                                                           "s" * 500]), DICT],
         2, "extra", [], free_dict=True),
    Spec("GOODBYE", 6, [DICT, _P("reason", chk_uri, ["wamp.close.normal"] + V_URI, "uri")], 1,
         "details", [
        Opt("message", chk_str, V_STR),
        Opt("resumable", chk_bool, V_BOOL, default=False),
    ]),
    Spec("ERROR", 8, [_P("request_type", None, [48, 32, 34, 16, 64, 66, 68], "request_type"),
                      _P("request", chk_id, V_ID, "id"), DICT,
                      _P("error", chk_uri, ["wamp.error.runtime_error"] + V_URI, "uri")],
         3, "details", _enc() + [
        Opt("callee", chk_id, V_ID, kind="id"),
        Opt("callee_authid", chk_str_any, V_STR),
        Opt("callee_authrole", chk_str_any, V_STR),
        _ff(),
    ], payload=True),
    Spec("PUBLISH", 16, [_P("request", chk_id, V_ID, "id"), DICT,
                         _P("topic", chk_uri, V_URI, "uri")], 2, "options", _enc() + [
        Opt("acknowledge", chk_bool, V_BOOL, default=False),
        Opt("exclude_me", chk_bool, [False, True]),
        Opt("exclude", chk_list_of(chk_id), V_LIST_ID, kind="idlist"),
        Opt("exclude_authid", chk_list_of(chk_str_any), V_LIST_STR),
        Opt("exclude_authrole", chk_list_of(chk_str_any), V_LIST_STR),
        Opt("eligible", chk_list_of(chk_id), V_LIST_ID, kind="idlist"),
        Opt("eligible_authid", chk_list_of(chk_str_any), V_LIST_STR),
        Opt("eligible_authrole", chk_list_of(chk_str_any), V_LIST_STR),
        Opt("retain", chk_bool, V_BOOL, default=False),
        Opt("transaction_hash", chk_str_any, ["0xabcdef", "h" * 64]),
        _ff(),
    ], payload=True),
    Spec("PUBLISHED", 17, [_P("request", chk_id, V_ID, "id"),
                           _P("publication", chk_id, V_ID[1:] + V_ID[:1], "id")], None, None, []),
    Spec("SUBSCRIBE", 32, [_P("request", chk_id, V_ID, "id"), DICT,
                           _P("topic", None, V_URI, "uri-match")], 2, "options", [
        Opt("match", chk_enum("exact", "prefix", "wildcard"), ["prefix", "wildcard", "exact"],
            default="exact", kind="match"),
        Opt("get_retained", chk_bool, V_BOOL, default=False),
        _ff(),
    ]),
    Spec("SUBSCRIBED", 33, [_P("request", chk_id, V_ID, "id"),
                            _P("subscription", chk_id, V_ID[1:] + V_ID[:1], "id")], None, None,
         []),
    Spec("UNSUBSCRIBE", 34, [_P("request", chk_id, V_ID, "id"),
                             _P("subscription", chk_id, V_ID[1:] + V_ID[:1], "id"), DICT],
         3, "options", [_ff()], dict_optional=True),
    Spec("UNSUBSCRIBED", 35, [_P("request", chk_id, V_ID, "id"), DICT], 2, "details", [
        Opt("subscription", chk_id, [5, MAX_ID, 1], kind="id"),
        Opt("reason", chk_uri, ["wamp.subscription.revoked"] + V_URI, kind="uri"),
    ], dict_optional=True),
    Spec("EVENT", 36, [_P("subscription", chk_id, V_ID, "id"),
                       _P("publication", chk_id, V_ID[1:] + V_ID[:1], "id"), DICT], 3,
         "details", _enc() + [
        Opt("publisher", chk_id, V_ID, kind="id"),
        Opt("publisher_authid", chk_str_any, V_STR),
        Opt("publisher_authrole", chk_str_any, V_STR),
        Opt("topic", chk_uri, V_URI, kind="uri"),
        Opt("retained", chk_bool, V_BOOL, default=False),
        Opt("transaction_hash", chk_str_any, ["0xabcdef", "h" * 64]),
        Opt("x_acknowledged_delivery", chk_bool, V_BOOL, default=False),
        _ff(),
    ], payload=True),
    Spec("EVENT_RECEIVED", 337, [_P("publication", chk_id, V_ID, "id")], None, None, [],
         pyclass="EventReceived"),
    Spec("CALL", 48, [_P("request", chk_id, V_ID, "id"), DICT,
                      _P("procedure", chk_uri, V_URI, "uri")], 2, "options", _enc() + [
        Opt("timeout", chk_nonneg_int, V_TIMEOUT),
        Opt("receive_progress", chk_bool, V_BOOL, default=False),
        Opt("transaction_hash", chk_str_any, ["0xabcdef", "h" * 64]),
        Opt("caller", chk_id, V_ID, kind="id"),
        Opt("caller_authid", chk_str_any, V_STR),
        Opt("caller_authrole", chk_str_any, V_STR),
        _ff(),
    ], payload=True),
    Spec("CANCEL", 49, [_P("request", chk_id, V_ID, "id"), DICT], 2, "options", [
        Opt("mode", chk_enum("skip", "kill", "killnowait"), ["kill", "skip", "killnowait"]),
        _ff(),
    ]),
    Spec("RESULT", 50, [_P("request", chk_id, V_ID, "id"), DICT], 2, "details", _enc() + [
        Opt("progress", chk_bool, V_BOOL, default=False),
        Opt("callee", chk_id, V_ID, kind="id"),
        Opt("callee_authid", chk_str_any, V_STR),
        Opt("callee_authrole", chk_str_any, V_STR),
        _ff(),
    ], payload=True),
    Spec("REGISTER", 64, [_P("request", chk_id, V_ID, "id"), DICT,
                          _P("procedure", None, V_URI, "uri-match")], 2, "options", [
        Opt("match", chk_enum("exact", "prefix", "wildcard"), ["prefix", "wildcard", "exact"],
            default="exact", kind="match"),
        Opt("invoke", chk_enum("single", "first", "last", "roundrobin", "random"),
            ["roundrobin", "first", "last", "random", "single"], default="single"),
        Opt("concurrency", chk_pos_int, V_CONCURRENCY),
        Opt("force_reregister", chk_bool, V_BOOL, default=False),
        _ff(),
    ]),
    Spec("REGISTERED", 65, [_P("request", chk_id, V_ID, "id"),
                            _P("registration", chk_id, V_ID[1:] + V_ID[:1], "id")], None, None,
         []),
    Spec("UNREGISTER", 66, [_P("request", chk_id, V_ID, "id"),
                            _P("registration", chk_id, V_ID[1:] + V_ID[:1], "id"), DICT],
         3, "options", [_ff()], dict_optional=True),
    Spec("UNREGISTERED", 67, [_P("request", chk_id, V_ID, "id"), DICT], 2, "details", [
        Opt("registration", chk_id, [5, MAX_ID, 1], kind="id"),
        Opt("reason", chk_uri, ["wamp.registration.revoked"] + V_URI, kind="uri"),
    ], dict_optional=True),
    Spec("INVOCATION", 68, [_P("request", chk_id, V_ID, "id"),
                            _P("registration", chk_id, V_ID[1:] + V_ID[:1], "id"), DICT], 3,
         "details", _enc() + [
        Opt("timeout", chk_nonneg_int, V_TIMEOUT),
        Opt("receive_progress", chk_bool, V_BOOL, default=False),
        Opt("caller", chk_id, V_ID, kind="id"),
        Opt("caller_authid", chk_str_any, V_STR),
        Opt("caller_authrole", chk_str_any, V_STR),
        Opt("procedure", chk_uri, V_URI, kind="uri"),
        Opt("transaction_hash", chk_str_any, ["0xabcdef", "h" * 64]),
        _ff(),
    ], payload=True),
    Spec("INTERRUPT", 69, [_P("request", chk_id, V_ID, "id"), DICT], 2, "options", [
        Opt("mode", chk_enum("kill", "killnowait"), ["kill", "killnowait"]),
        Opt("reason", chk_uri, ["wamp.error.canceled"] + V_URI, kind="uri"),
        _ff(),
    ]),
    Spec("YIELD", 70, [_P("request", chk_id, V_ID, "id"), DICT], 2, "options", _enc() + [
        Opt("progress", chk_bool, V_BOOL, default=False),
        Opt("callee", chk_id, V_ID, kind="id"),
        Opt("callee_authid", chk_str_any, V_STR),
        Opt("callee_authrole", chk_str_any, V_STR),
        _ff(),
    ], payload=True),
]

MESSAGES = {s.name: s for s in _SPECS}
CODES = {s.code: s.name for s in _SPECS}
CLASS_NAMES = [s.name for s in _SPECS]
assert len(MESSAGES) == 25 and len(CODES) == 25

ERROR_REQUEST_TYPES = (32, 34, 16, 64, 66, 48, 68)   # SUBSCRIBE UNSUBSCRIBE PUBLISH REGISTER
#                                                      UNREGISTER CALL INVOCATION
ERROR_REQUEST_TYPES_LAX = (49,)                       # CANCEL: not named by the specification


def match_uri_ok(uri, match):
    """topic / procedure of SUBSCRIBE / REGISTER under the matching policy"""
    if match == "prefix":
        return uri_ok(uri, allow_last_empty=True)
    if match == "wildcard":
        return uri_ok(uri, allow_empty_components=True)
    return uri_ok(uri)


# ---------------------------------------------------------------------------
# validation
# ---------------------------------------------------------------------------

def explain(w):
    """-> (verdict, bad, lax); bad = [(path, kind, why)], lax = [(path, why)]"""
    bad, lax = [], []
    if type(w) is not list:
        return "reject", [("envelope", "envelope", "message is not a list")], lax
    if len(w) == 0:
        return "reject", [("envelope", "envelope", "empty list")], lax
    code = w[0]
    if type(code) is not int:
        return "reject", [("type", "type-code", "type code is not an integer")], lax
    if code not in CODES:
        return "reject", [("type", "type-code", "unknown type code %s" % (_short(code),))], lax
    spec = MESSAGES[CODES[code]]
    n = len(w)
    if n < spec.min_len or n > spec.max_len:
        return "reject", [("length", "count", "%d elements for %s" % (n, spec.name))], lax

    options = None
    for i, p in enumerate(spec.pos):
        idx = i + 1
        if idx >= n:
            break                        # omitted optional trailing dict
        v = w[idx]
        if p is DICT:
            r = chk_dict_strkeys(v)
            if r != OK:
                bad.append((spec.dict_name, "wrong-type", "not a dict with string keys"))
            else:
                options = v
            continue
        if p.kind == "request_type":
            if type(v) is not int:
                bad.append((p.name, "wrong-type", "request type is not an integer"))
            elif v in ERROR_REQUEST_TYPES_LAX:
                lax.append((p.name, "ERROR for CANCEL is not named by the specification"))
            elif v not in ERROR_REQUEST_TYPES:
                bad.append((p.name, "value-out-of-range", "not a request message type"))
            continue
        if p.kind == "uri-match":
            continue                     # needs the match option, below
        r = p.chk(v)
        if r == LAX:
            lax.append((p.name, "latitude for %s" % (_short(v),)))
        elif r != OK:
            bad.append((p.name, r[1], "invalid %s %r" % (p.name, _short(v))))

    # payload part
    payload_mode = False
    if spec.payload:
        base = 1 + len(spec.pos)
        if n == base + 1 and type(w[base]) is bytes:
            payload_mode = True
        elif n == base + 2 and type(w[base]) is bytes and spec.name != "PUBLISH":
            # (PUBLISH documents pass-through of pre-serialized str/bytes Arguments: latitude below)
            # the payload-transparency form has exactly one element after the fixed positions: a
            # binary payload followed by a further element is a wrong element count
            bad.append(("length", "count", "binary payload followed by a further element"))
        else:
            if n > base:
                a = w[base]
                if type(a) is not list:
                    lax.append(("args", "Arguments is not a list (pass-through latitude)"))
            if n > base + 1:
                k = w[base + 1]
                if type(k) is not dict:
                    lax.append(("kwargs", "ArgumentsKw is not a dict"))
                elif any(type(x) is not str for x in k):
                    lax.append(("kwargs", "ArgumentsKw with non-string keys"))

    match = "exact"
    if options is not None:
        for key, v in options.items():
            path = "%s.%s" % (spec.dict_name, key)
            o = spec.opts.get(key)
            if o is None:
                if spec.free_dict or (spec.custom_keys and custom_key_ok(key)):
                    continue             # free-form extra / custom attribute: carried as is
                lax.append((path, "unknown key"))
                continue
            if o.kind == "enc":
                if not payload_mode:
                    lax.append((path, "payload transparency key without binary payload"))
                    continue
            if v is None:
                lax.append((path, "null for an option"))
                continue
            r = o.chk(v)
            if r == LAX:
                lax.append((path, "latitude for %r" % (_short(v),)))
            elif r != OK:
                bad.append((path, r[1], "invalid value %r" % (_short(v),)))
            elif o.kind == "match":
                match = v
        for o in spec.opts.values():
            if o.required and o.key not in options:
                bad.append(("%s.%s" % (spec.dict_name, o.key), "wrong-type",
                            "mandatory key missing"))
        if payload_mode and options.get("enc_algo") is None:
            lax.append((spec.dict_name + ".enc_algo", "binary payload without enc_algo"))
        # combination rules of extensions
        if spec.name == "HELLO":
            if options.get("resume-session") is not None and "resume-token" not in options:
                lax.append(("details.resume-session", "resume-session without resume-token"))
        if spec.name == "WELCOME":
            if options.get("resumable") is True and "resume_token" not in options:
                lax.append(("details.resumable", "resumable without resume_token"))
        if spec.name in ("UNSUBSCRIBED", "UNREGISTERED"):
            key = "subscription" if spec.name == "UNSUBSCRIBED" else "registration"
            if key in options and type(options[key]) is int and type(w[1]) is int:
                if w[1] != 0 or options[key] == 0:
                    lax.append(("details." + key, "revocation with request != 0 or id 0"))

    for i, p in enumerate(spec.pos):
        if p is not DICT and p.kind == "uri-match" and i + 1 < n:
            v = w[i + 1]
            if type(v) is not str:
                bad.append((p.name, "wrong-type", "URI is not a string"))
            elif not match_uri_ok(v, match):
                if options is None:
                    # match policy unknown because the options are malformed
                    if not uri_ok(v, allow_empty_components=True):
                        bad.append((p.name, "uri-grammar", "invalid URI %r" % (_short(v),)))
                else:
                    bad.append((p.name, "uri-grammar",
                                "invalid URI %r for match=%s" % (_short(v), match)))

    verdict = "reject" if bad else ("either" if lax else "accept")
    return verdict, bad, lax


def validate(w):
    return explain(w)[0]


def safe_repr(v):
    """repr() that also works for integers beyond CPython's int -> str digit limit"""
    import sys
    old = sys.get_int_max_str_digits()
    sys.set_int_max_str_digits(0)
    try:
        s = repr(v)
    finally:
        sys.set_int_max_str_digits(old)
    return s if len(s) <= 400 else s[:200] + "...(%d characters)" % len(s)


def _short(v):
    s = safe_repr(v)
    return s if len(s) <= 60 else s[:57] + "..."


# ---------------------------------------------------------------------------
# canonical form (equivalence of input and re-marshal)
# ---------------------------------------------------------------------------

def plain(x):
    """tuple -> list, memoryview/bytearray -> bytes, recursively"""
    if isinstance(x, (list, tuple)):
        return [plain(e) for e in x]
    if isinstance(x, dict):
        return {k: plain(v) for k, v in x.items()}
    if isinstance(x, (memoryview, bytearray)):
        return bytes(x)
    return x


def _leaf_eq(a, b):
    """equality of leaves, robust against codec-specific objects (numpy arrays ...)"""
    if a is b:
        return True
    try:
        r = a == b
        if isinstance(r, bool):
            return r
        return bool(r.all())
    except Exception:
        return repr(a) == repr(b)


def deep_eq(a, b):
    """structural equality that distinguishes bool/int/float and str/bytes"""
    if type(a) is not type(b):
        return False
    if isinstance(a, list):
        return len(a) == len(b) and all(deep_eq(x, y) for x, y in zip(a, b))
    if isinstance(a, dict):
        if len(a) != len(b):
            return False
        for k, v in a.items():
            if k not in b or not deep_eq(v, b[k]):
                return False
            # key types must agree too
        return {type(k) for k in a} == {type(k) for k in b}
    if isinstance(a, float):
        return a == b or (a != a and b != b)
    return _leaf_eq(a, b)


def _canon_roles(v):
    out = {}
    for role, rd in v.items():
        feats = {}
        if isinstance(rd, dict) and isinstance(rd.get("features"), dict):
            feats = {k: x for k, x in rd["features"].items() if x is not None}
        out[role] = {"features": feats} if feats else {}
    return out


def canonical(w):
    """Normal form of an ACCEPTED message.  Each rule is an equivalence the
    specification states: a boolean option equal to its default (false) is the
    same as its absence; match=exact / invoke=single are the defaults; an empty
    forward_for chain is no forwarding; empty authextra is no authextra; an
    omitted ArgumentsKw is the empty dict and an omitted Arguments the empty
    list; an optional trailing empty Options/Details dict may be omitted;
    'features': {} equals no features and a null feature equals its absence."""
    w = plain(w)
    if type(w) is not list or not w or type(w[0]) is not int or w[0] not in CODES:
        return w
    spec = MESSAGES[CODES[w[0]]]
    w = list(w)
    if spec.dict_index is not None and len(w) > spec.dict_index and \
            isinstance(w[spec.dict_index], dict):
        d = {}
        for k, v in w[spec.dict_index].items():
            o = spec.opts.get(k)
            if o is None:
                d[k] = v
                continue
            if o.kind == "roles" and isinstance(v, dict):
                d[k] = _canon_roles(v)
                continue
            if o.default is not None and type(v) is type(o.default) and v == o.default:
                continue
            d[k] = v
        w[spec.dict_index] = d
    if spec.payload:
        base = 1 + len(spec.pos)
        if len(w) == base + 2 and type(w[base + 1]) is dict and not w[base + 1]:
            w.pop()
        if len(w) == base + 1 and type(w[base]) is list and not w[base]:
            w.pop()
    if spec.dict_optional and len(w) == spec.max_len and type(w[-1]) is dict and not w[-1]:
        w.pop()
    return w


def attr_equiv(name, value):
    """normal form of a public attribute of a message object (same equivalences
    as canonical(), at attribute level)"""
    value = plain(value)
    if name == "args" and value is None:
        return []
    if name == "kwargs" and value is None:
        return {}
    if name == "forward_for" and type(value) is list and not value:
        return None
    if name in ("acknowledge", "retain", "get_retained", "retained", "receive_progress",
                "progress", "resumable", "resumed", "x_acknowledged_delivery",
                "force_reregister") and value is False:
        return None
    if name == "authextra" and type(value) is dict and not value:
        return None
    return value


# ---------------------------------------------------------------------------
# generation of valid messages
# ---------------------------------------------------------------------------

def _items(spec):
    """optional items of a class: option keys, plus pseudo items of the payload part"""
    items = [o.key for o in spec.opts.values() if not o.required and o.kind != "enc"]
    if spec.payload:
        items += ["args", "kwargs", "payload", "enc_key", "enc_serializer"]
    if spec.dict_optional:
        items += ["@dict"]           # the trailing dict itself, present but maybe empty
    if spec.custom_keys:
        items += ["x_custom"]
    if spec.free_dict:
        items += ["@extra"]
    return items


def _consistent(spec, S):
    S = set(S)
    if spec.payload:
        if "payload" in S and ("args" in S or "kwargs" in S):
            return False
        if ("enc_key" in S or "enc_serializer" in S) and "payload" not in S:
            return False
    if spec.dict_optional:
        others = [x for x in S if x != "@dict"]
        if others and "@dict" not in S:
            return False
    if spec.name == "HELLO" and "resume-session" in S and "resume-token" not in S:
        return False
    return True


_PSEUDO_VALUES = {
    "args": V_ARGS, "kwargs": V_KWARGS, "payload": V_PAYLOAD, "enc_key": V_ENC_KEY,
    "enc_serializer": V_ENC_SER, "@dict": [None],
    "@extra": [{"challenge": "{\"nonce\": \"x\"}", "salt": "s", "iterations": 1000,
                "keylen": 32}, {"a": 1}, V_EXTRA[2], {"channel_binding": None,
                                                      "pubkey": "ab" * 32}],
    "x_custom": [{"x_foo": 1}, {"x_my_attr1": {"a": [1, "\U0001F600"]}, "x_ab": "v"},
                 {"x_": None}],
}


def _values(spec, item):
    if item in spec.opts:
        return spec.opts[item].values
    return _PSEUDO_VALUES[item]


def build(spec, chosen, pos_values=None, enc_algo=None):
    """chosen: item -> value;  pos_values: position name -> value (else primary)"""
    pos_values = pos_values or {}
    d = {}
    for o in spec.opts.values():
        if o.required:
            d[o.key] = chosen.get(o.key, o.values[0])
    for k, v in chosen.items():
        if k in spec.opts and spec.opts[k].kind != "enc":
            d[k] = v
    if "x_custom" in chosen:
        d.update(chosen["x_custom"])
    if "@extra" in chosen:
        d.update(chosen["@extra"])
    tail = []
    if spec.payload:
        if "payload" in chosen:
            d["enc_algo"] = enc_algo or V_ENC_ALGO[0]
            if "enc_key" in chosen:
                d["enc_key"] = chosen["enc_key"]
            if "enc_serializer" in chosen:
                d["enc_serializer"] = chosen["enc_serializer"]
            tail = [chosen["payload"]]
        elif "kwargs" in chosen:
            tail = [chosen.get("args", []), chosen["kwargs"]]
        elif "args" in chosen:
            tail = [chosen["args"]]
    w = [spec.code]
    match = d.get("match", "exact")
    for p in spec.pos:
        if p is DICT:
            w.append(d)
        elif p.name in pos_values:
            w.append(pos_values[p.name])
        elif p.kind == "uri-match":
            w.append({"prefix": V_URI_PREFIX[0], "wildcard": V_URI_WILDCARD[0]}.get(
                match, p.values[0]))
        else:
            w.append(p.values[0])
    if spec.dict_optional and "@dict" not in chosen and not d:
        w.pop()
    # value-level constraints of extensions
    if spec.name in ("UNSUBSCRIBED", "UNREGISTERED"):
        key = "subscription" if spec.name == "UNSUBSCRIBED" else "registration"
        if key in d:
            if pos_values.get("request", 0) != 0:
                del d[key]           # revocation details only go with request == 0
            else:
                w[1] = 0
    if spec.name == "WELCOME" and d.get("resumable") is True and "resume_token" not in d:
        d["resumable"] = False
    return w + tail


def subsets(spec, tier):
    items = _items(spec)
    out = []
    if tier == "thorough":
        for n in range(len(items) + 1):
            for S in itertools.combinations(items, n):
                if _consistent(spec, S):
                    out.append(S)
    else:
        seen = set()
        for n in range(0, 4):
            for S in itertools.combinations(items, n):
                if _consistent(spec, S) and S not in seen:
                    seen.add(S)
                    out.append(S)
        for S in maximal_sets(spec):
            if S not in seen:
                seen.add(S)
                out.append(S)
    return out


def maximal_sets(spec):
    items = _items(spec)
    if spec.payload:
        a = tuple(x for x in items if x not in ("payload", "enc_key", "enc_serializer"))
        b = tuple(x for x in items if x not in ("args", "kwargs"))
        return [a, b]
    return [tuple(items)]


def generate_valid(cls, tier="quick"):
    """-> [(label, wire)].  (1) every consistent subset of optional items (quick:
    size <= 3 and the maximal sets) with the primary boundary value of each item,
    in thorough additionally with two rotations of the value lists and every pair
    of items with every combination of their boundary values; (2) every
    item alone with each of its boundary values; (3) every positional field with
    each of its boundary values, alone and with the maximal sets; (4) for
    SUBSCRIBE/REGISTER every match policy with each URI of that policy."""
    spec = MESSAGES[cls]
    out = []
    rotations = (0, 1, 2) if tier == "thorough" else (0,)
    for S in subsets(spec, tier):
        for r in rotations:
            chosen = {}
            for j, item in enumerate(S):
                vals = _values(spec, item)
                chosen[item] = vals[(r * (j + 1)) % len(vals)] if r else vals[0]
            enc = V_ENC_ALGO[r % len(V_ENC_ALGO)]
            out.append(("subset:%s/r%d" % ("+".join(S) or "-", r), build(spec, chosen,
                                                                           enc_algo=enc)))
    if tier == "thorough":
        # (1b) every consistent pair of optional items with every combination of their values
        items = _items(spec)
        for a, b in itertools.combinations(items, 2):
            S = (a, b)
            extra = ()
            if not _consistent(spec, S):
                need = set()
                for x in S:
                    if x in ("enc_key", "enc_serializer"):
                        need.add("payload")
                    if x == "resume-session":
                        need.add("resume-token")
                if spec.dict_optional:
                    need.add("@dict")
                extra = tuple(sorted(need - set(S)))
                if not _consistent(spec, S + extra):
                    continue
            for i, va in enumerate(_values(spec, a)):
                for j, vb in enumerate(_values(spec, b)):
                    chosen = {c: _values(spec, c)[0] for c in extra}
                    chosen[a], chosen[b] = va, vb
                    out.append(("pair:%s#%d+%s#%d" % (a, i, b, j), build(spec, chosen)))
    for item in _items(spec):
        if not _consistent(spec, (item,)):
            # needs company (enc_key -> payload, resume-session -> resume-token)
            company = {"enc_key": ("payload",), "enc_serializer": ("payload",),
                       "resume-session": ("resume-token",)}.get(item, ("@dict",))
        else:
            company = ()
        for i, v in enumerate(_values(spec, item)):
            chosen = {c: _values(spec, c)[0] for c in company}
            chosen[item] = v
            out.append(("single:%s#%d" % (item, i), build(spec, chosen)))
    if spec.payload:
        for i, a in enumerate(V_ENC_ALGO):
            for j, p in enumerate(V_PAYLOAD):
                out.append(("enc_algo:%s/payload#%d" % (a, j),
                            build(spec, {"payload": p}, enc_algo=a)))
        for i, a in enumerate(V_ARGS):
            for j, k in enumerate(V_KWARGS):
                out.append(("args#%d+kwargs#%d" % (i, j), build(spec, {"args": a, "kwargs": k})))
    for o in spec.opts.values():
        if o.required:
            for i, v in enumerate(o.values):
                out.append(("required:%s#%d" % (o.key, i), build(spec, {o.key: v})))
    for p in spec.pos:
        if p is DICT or p.kind == "uri-match":
            continue
        for i, v in enumerate(p.values):
            out.append(("pos:%s#%d" % (p.name, i), build(spec, {}, {p.name: v})))
            for S in maximal_sets(spec):
                chosen = {item: _values(spec, item)[0] for item in S}
                w = build(spec, chosen, {p.name: v})
                out.append(("pos:%s#%d/full" % (p.name, i), w))
    for p in spec.pos:
        if p is not DICT and p.kind == "uri-match":
            for m, uris in (("exact", V_URI), ("prefix", V_URI_PREFIX + V_URI[:2]),
                            ("wildcard", V_URI_WILDCARD)):
                for i, u in enumerate(uris):
                    for explicit in (True, False):
                        if m != "exact" and not explicit:
                            continue
                        chosen = {"match": m} if explicit else {}
                        out.append(("match:%s#%d%s" % (m, i, "" if explicit else "/implicit"),
                                    build(spec, chosen, {p.name: u})))
    if spec.name in ("UNSUBSCRIBED", "UNREGISTERED"):
        key = "subscription" if spec.name == "UNSUBSCRIBED" else "registration"
        for rq in V_ID:
            out.append(("request#%d" % rq, [spec.code, rq]))
            if rq != 0:
                out.append(("request#%d+reason" % rq, [spec.code, rq, {"reason": "a.b"}]))
        for sid in (1, MAX_ID):
            out.append(("revocation#%d" % sid, [spec.code, 0, {key: sid}]))
            out.append(("revocation#%d+reason" % sid,
                        [spec.code, 0, {key: sid, "reason": "wamp.error.revoked"}]))
    if spec.name == "WELCOME":
        out.append(("resumable", build(spec, {"resumable": True, "resume_token": "tok"})))
        out.append(("resumed+resumable", build(spec, {"resumed": True, "resumable": True,
                                                      "resume_token": "tok"})))
    # de-duplicate identical wire forms, keep first label
    seen, uniq = set(), []
    for label, w in out:
        key = repr(w)
        if key not in seen:
            seen.add(key)
            uniq.append((label, w))
    return uniq


def base_forms(cls):
    """maximal valid forms used as mutation seeds (every known key present)"""
    spec = MESSAGES[cls]
    forms = []
    for S in maximal_sets(spec):
        chosen = {item: _values(spec, item)[0] for item in S}
        if "forward_for" in chosen:
            chosen["forward_for"] = [FF1, FF2]
        if "args" in chosen:
            chosen["args"] = [1, "a"]
        if "kwargs" in chosen:
            chosen["kwargs"] = {"k": 1}
        if "payload" in chosen:
            chosen["payload"] = b"\x01\x02payload"
        forms.append(("full:" + ("payload" if "payload" in S else "args"), build(spec, chosen)))
    forms.append(("minimal", build(spec, {})))
    if spec.name in ("SUBSCRIBE", "REGISTER"):
        for m in ("prefix", "wildcard"):
            forms.append(("match:" + m, build(spec, {"match": m})))
    if spec.name in ("UNSUBSCRIBED", "UNREGISTERED"):
        forms.append(("plain", [spec.code, 5]))
    seen, uniq = set(), []
    for label, w in forms:
        if repr(w) not in seen:
            seen.add(repr(w))
            uniq.append((label, w))
    return uniq


def selfcheck():
    """the generator and the validator agree: every generated message is 'accept'"""
    n = 0
    for cls in CLASS_NAMES:
        for tier in ("quick",):
            for label, w in generate_valid(cls, tier):
                v, bad, lax = explain(w)
                if v != "accept":
                    raise AssertionError("grammar self-check: %s %s -> %s %s %s" % (
                        cls, label, v, bad, lax))
                n += 1
        for label, w in base_forms(cls):
            v, bad, lax = explain(w)
            if v != "accept":
                raise AssertionError("grammar self-check (base form): %s %s -> %s %s %s" % (
                    cls, label, v, bad, lax))
    return n




# ---------------------------------------------------------------------------
# JSON-able encoding of arbitrary wire structures (replay files)
# ---------------------------------------------------------------------------

def to_jsonable(x):
    if type(x) is int and abs(x) >= 2 ** 1024:
        return {"t": "i", "v": hex(x)}
    if x is None or type(x) in (bool, int, str):
        return x
    if type(x) is float:
        return {"t": "f", "v": repr(x)}
    if isinstance(x, (bytes, bytearray, memoryview)):
        return {"t": "b", "v": bytes(x).hex()}
    if isinstance(x, (list, tuple)):
        return {"t": "l", "v": [to_jsonable(e) for e in x]}
    if isinstance(x, dict):
        return {"t": "d", "v": [[to_jsonable(k), to_jsonable(v)] for k, v in x.items()]}
    return {"t": "r", "v": safe_repr(x)}


def from_jsonable(x):
    if not isinstance(x, dict):
        return x
    t, v = x["t"], x["v"]
    if t == "f":
        return float(v)
    if t == "b":
        return bytes.fromhex(v)
    if t == "i":
        return int(v, 16)
    if t == "l":
        return [from_jsonable(e) for e in v]
    if t == "d":
        return {from_jsonable(k): from_jsonable(e) for k, e in v}
    return v


def _key_str(k):
    return k if isinstance(k, str) else _short(k)


def first_diff(a, b, path=""):
    """path of the first structural difference between two plain structures, or None"""
    if type(a) is not type(b):
        return path or "."
    if isinstance(a, list):
        if len(a) != len(b):
            return (path or ".") + "#len"
        for i, (x, y) in enumerate(zip(a, b)):
            d = first_diff(x, y, "%s[%d]" % (path, i))
            if d:
                return d
        return None
    if isinstance(a, dict):
        for k in a:
            if k not in b:
                return "%s.%s" % (path, _key_str(k))
        for k in b:
            if k not in a:
                return "%s.%s" % (path, _key_str(k))
        for k in a:
            d = first_diff(a[k], b[k], "%s.%s" % (path, _key_str(k)))
            if d:
                return d
        return None
    if isinstance(a, float):
        return None if (a == b or (a != a and b != b)) else (path or ".")
    return None if _leaf_eq(a, b) else (path or ".")


def field_of(spec_name, path):
    """stable field name of a first_diff path in a wire list: '[2].authid[0]' -> 'details.authid'"""
    spec = MESSAGES.get(spec_name)
    if not path or spec is None:
        return path or "?"
    import re
    m = re.match(r"^\[(\d+)\](.*)$", path)
    if not m:
        return path
    idx, rest = int(m.group(1)), m.group(2)
    rest = re.sub(r"\[\d+\]", "[]", rest)
    if idx == 0:
        name = "type"
    elif idx <= len(spec.pos):
        p = spec.pos[idx - 1]
        name = spec.dict_name if p is DICT else p.name
    else:
        k = idx - 1 - len(spec.pos)
        name = ("args", "kwargs")[k] if k < 2 else "extra%d" % k
    parts = rest.split(".")
    # keep at most two levels below the position
    rest = ".".join(parts[:3])
    return name + rest


if __name__ == "__main__":
    print("generated and validated:", selfcheck())
    for c in CLASS_NAMES:
        print(c, len(generate_valid(c, "quick")), len(generate_valid(c, "thorough")))
