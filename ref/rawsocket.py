"""
WAMP RawSocket transport, independent reference peer (no autobahn imports),
written from the WAMP specification (Advanced Profile, "RawSocket Transport").

Handshake, client -> server, 4 octets:
    0x7F | LLLL SSSS | 0x00 | 0x00
  LLLL = maximum message length the SENDER of the handshake is willing to
         RECEIVE: 2**(9+LLLL) octets (0 -> 512 ... 15 -> 16 MiB)
  SSSS = serializer: 0 illegal, 1 JSON, 2 MessagePack, 3 CBOR, 4 UBJSON,
         5 FlatBuffers, 6..15 reserved
  octets 3-4 reserved, MUST be zero.
Server reply, 4 octets: same layout with the server's own LLLL and the
  serializer echoed; or an error 0x7F | EEEE 0000 | 0 | 0 with
  EEEE: 1 serializer unsupported, 2 maximum message length unacceptable,
        3 use of reserved bits, 4 maximum connection count reached;
  after an error reply the server closes the connection.
Frames after the handshake: RRRR RTTT | 24-bit big-endian length | payload
  TTT: 0 regular WAMP message, 1 PING, 2 PONG, 3..7 reserved; R reserved = 0.
"""
MAGIC = 0x7F

SER_JSON, SER_MSGPACK, SER_CBOR, SER_UBJSON, SER_FLATBUFFERS = 1, 2, 3, 4, 5
SERIALIZER_IDS = {"json": SER_JSON, "msgpack": SER_MSGPACK, "cbor": SER_CBOR,
                  "ubjson": SER_UBJSON, "flatbuffers": SER_FLATBUFFERS}
SERIALIZER_NAMES = {v: k for k, v in SERIALIZER_IDS.items()}

ERR_SERIALIZER_UNSUPPORTED = 1
ERR_MAXLEN_UNACCEPTABLE = 2
ERR_RESERVED_BITS = 3
ERR_MAX_CONNECTIONS = 4
ERROR_CODES = (1, 2, 3, 4)

FT_MESSAGE, FT_PING, FT_PONG = 0, 1, 2

MAX_FRAME_LEN = (1 << 24) - 1     # what 24 bits can announce


def max_len(exp):
    """maximum message length announced by exponent nibble `exp`"""
    assert 0 <= exp <= 15
    return 1 << (9 + exp)


def exp_for(length):
    """the smallest exponent whose announced maximum is >= length"""
    for e in range(16):
        if max_len(e) >= length:
            return e
    raise ValueError("no exponent announces %d" % length)


def handshake(exp, ser, reserved=b"\x00\x00", magic=MAGIC):
    assert 0 <= exp <= 15 and 0 <= ser <= 15 and len(reserved) == 2
    return bytes([magic, (exp << 4) | ser]) + bytes(reserved)


def error_reply(err):
    assert 0 <= err <= 15
    return bytes([MAGIC, (err << 4), 0, 0])


class Handshake:
    __slots__ = ("magic", "exp", "ser", "reserved", "raw")

    def __init__(self, raw):
        raw = bytes(raw)
        assert len(raw) == 4
        self.raw = raw
        self.magic = raw[0]
        self.exp = raw[1] >> 4
        self.ser = raw[1] & 0x0F
        self.reserved = raw[2:4]

    @property
    def magic_ok(self):
        return self.magic == MAGIC

    @property
    def reserved_zero(self):
        return self.reserved == b"\x00\x00"

    @property
    def max_len(self):
        return max_len(self.exp)

    @property
    def is_error(self):
        """as a server reply: serializer nibble 0 = error, upper nibble = code"""
        return self.ser == 0

    def brief(self):
        return {"magic": self.magic, "exp": self.exp, "ser": self.ser,
                "reserved": self.reserved.hex()}


def judge_client_handshake(raw, supported):
    """What a SERVER supporting the serializer ids `supported` must do with the
    4 handshake octets `raw` sent by a client.
    -> (verdict, why, error_code) with verdict 'valid' | 'invalid' | 'either'.
    'either' only for a otherwise valid handshake with non-zero reserved octets
    (the specification demands zero and offers error 3; the property statement
    only names the magic octet and the serializer)."""
    h = Handshake(raw)
    if not h.magic_ok:
        return "invalid", "magic", None
    if h.ser == 0:
        return "invalid", "serializer-0-illegal", ERR_SERIALIZER_UNSUPPORTED
    if h.ser not in supported:
        return "invalid", "serializer-unsupported", ERR_SERIALIZER_UNSUPPORTED
    if not h.reserved_zero:
        return "either", "reserved-bits", ERR_RESERVED_BITS
    return "valid", "ok", None


def judge_server_reply(raw, requested_ser):
    """What a CLIENT that requested serializer id `requested_ser` must do with
    the 4 reply octets `raw`.  -> (verdict, why)"""
    h = Handshake(raw)
    if not h.magic_ok:
        return "invalid", "magic"
    if h.is_error:
        return "invalid", "error-reply-%d" % h.exp
    if h.ser != requested_ser:
        return "invalid", "serializer-mismatch"
    if not h.reserved_zero:
        return "either", "reserved-bits"
    return "valid", "ok"


def judge_written_reply(raw):
    """classify octets a server wrote in answer to a handshake:
    '' (nothing) | 'accept' | 'error' | 'malformed'"""
    raw = bytes(raw)
    if not raw:
        return "", None
    if len(raw) != 4:
        return "malformed", None
    h = Handshake(raw)
    if not h.magic_ok or not h.reserved_zero:
        return "malformed", None
    if h.is_error:
        return ("error", h.exp) if h.exp in ERROR_CODES else ("malformed", None)
    return "accept", h


# ---------------------------------------------------------------------------
# framing
# ---------------------------------------------------------------------------
def frame(payload, ftype=FT_MESSAGE, declared_len=None, reserved_bits=0, header_only=False):
    n = len(payload) if declared_len is None else declared_len
    if not 0 <= n <= MAX_FRAME_LEN:
        raise ValueError("length %d does not fit 24 bits" % n)
    hdr = bytes([((reserved_bits & 0x1F) << 3) | (ftype & 7)]) + n.to_bytes(3, "big")
    if header_only:
        return hdr
    return hdr + bytes(payload)


class Frame:
    __slots__ = ("ftype", "reserved_bits", "length", "payload", "start", "end")

    def brief(self):
        return {"type": self.ftype, "rsv": self.reserved_bits, "len": self.length}


def parse_frames(data):
    """-> (frames, offset of the first octet not consumed)"""
    data = bytes(data)
    out = []
    i = 0
    n = len(data)
    while n - i >= 4:
        b0 = data[i]
        length = int.from_bytes(data[i + 1:i + 4], "big")
        if n - i - 4 < length:
            break
        f = Frame()
        f.start = i
        f.ftype = b0 & 7
        f.reserved_bits = b0 >> 3
        f.length = length
        f.payload = data[i + 4:i + 4 + length]
        f.end = i + 4 + length
        out.append(f)
        i = f.end
    return out, i


def check_sender_stream(data, peer_max_len):
    """judge what an endpoint wrote after its handshake: complete frames only,
    reserved bits zero, known types, no message longer than the maximum the
    peer announced.  -> (errors, messages[payload], pings, pongs)"""
    frames, used = parse_frames(data)
    errors = []
    if used != len(data):
        errors.append("trailing octets that do not form a complete frame: %d" % (len(data) - used))
    msgs, pings, pongs = [], [], []
    for k, f in enumerate(frames):
        if f.reserved_bits:
            errors.append("frame %d: reserved bits set" % k)
        if f.ftype == FT_MESSAGE:
            if f.length > peer_max_len:
                errors.append("frame %d: %d octets exceed the peer's announced maximum %d" % (
                    k, f.length, peer_max_len))
            msgs.append(f.payload)
        elif f.ftype == FT_PING:
            pings.append(f.payload)
        elif f.ftype == FT_PONG:
            pongs.append(f.payload)
        else:
            errors.append("frame %d: reserved frame type %d" % (k, f.ftype))
    return errors, msgs, pings, pongs
